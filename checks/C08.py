"""C08 -- Mock verdict is exact: passes iff actual calls match the expectations.
Scenario = list of operations (tokens, all numbers hex):
  :e <count> <f> <k> (<p> <value>){k} <ret: ~ | value> <ignoreOtherParameters 0|1>     expectNCalls(count,"f<f>").withParameter("p<p>",v)...
  :c <f> <k> (<p> <value>){k} <want 0|1>        actualCall("f<f>").withParameter(...)...; want: hasReturnValue()? returnValue()
  :chk  :clr  :strict  :ign                      checkExpectations / clear / strictOrder / ignoreOtherCalls
  :E <count> <f> <k> (<p> <value>){k} <ko> (<o> $bytes){ko} <obj: ~ | addr> <ret: ~ | value> <ign 0|1>
                                                 ... .withOutputParameterReturning("o<o>", bytes, len)... [.onObject(addr)]
  :C <f> <k> item{k} <want 0|1>                  actualCall("f<f>") followed by the items in this order
        item ::= :in <p> <value> | :out <o> $bytes(8: the caller's buffer before the call) | :obj <addr>
  :en  :dis  :left                               enable / disable / expectedCallsLeft (answer is observed)
  :post                                          the end-of-test check of MockSupportPlugin::postTestAction (on mock(): the real plugin;
                                                 on a scope: checkExpectations() with a reporter that records and returns, then clear());
                                                 every failure it delivers is observed
  :s <n> <op>                                    the operation is made on the named scope mock("s<n>") instead of mock()
  obj: ~ = no onObject at all; 0 = onObject(NULLPTR), an expectation on / a call on the null object; other = that address
A RUN of several tests (scenario starts with :T):  (:T step* [:D tdstep*])+   step ::= <op> (not :post) | :ok | :bad
                                                 tdstep ::= [:s <n>] :chk | [:s <n>] :clr   -- the TEARDOWN of the test: runs after the
                                                 body whether or not the body was left at a failure, with the same default reporter
                                                 (which does not fail a test that has already failed); then the plugin's post action
                                                 each :T is one test of a private TestRegistry with the real MockSupportPlugin installed,
                                                 run by runAllTests with ONE TestResult; :ok / :bad = a check of the test's own that
                                                 passes / fails (FAIL leaves the test); mock failures go to the library's default
                                                 reporter (fails the current test and leaves it); the end-of-test check is the plugin's
Observation of a run with a :D section: :runt n (<own> <count> nTd (<index of the teardown operation> :kind a b nUnf .. nFul ..)* <obs>)*
                                                 nTd = the failures delivered while the teardown ran
Observation of a run: :run n (<own 0|1> <TestResult::getFailureCount() when the test ended> <observation as below, fail index = index
                                                 among the mock operations of the body, nPost = what the plugin's check delivered>)*
  value ::= :b 0|1 | :i <ty 0..5> <z> | :s $bytes | :p <addr>
Observation: <fail: ~ | opindex :kind a b  nUnf (exp act)*  nFul (exp act)*>  nRets (<:n | value>)*  nOuts ($bytes)*  nLeft (0|1)*
             nPost (:kind a b  nUnf (exp act)*  nFul (exp act)*)*
(output buffers of every completed actual call in the order they were passed; nPost: the failures of the :post checks).
The scenario stops at its first failure (the reporter leaves the test); mock().clear() afterwards."""
import itertools
from vlib import tz, tb
ID = "C08"
FLAVOURS = ["asan"]
HARNESS_SRCS = ["harness/C08.cpp"]
RULE = ("expectation sets of 1-6 expectations over 1-3 function names, 0-3 parameters per expectation from a pool of 3 names x 12 typed "
        "values (bool, 6 integer types incl. the same number in two types, strings, pointers), expected counts 0-3, optional return "
        "values; the matching call sequence in every permutation (<=4 calls) or sampled permutations, parameters in shuffled order, "
        "plus one mutation at each position (drop, duplicate, extra call to a known/unknown function, wrong value, wrong/extra parameter "
        "name, missing parameter, adjacent swap); strict order on/off, ignoreOtherCalls, intermediate checkExpectations/clear; separate "
        "streams with ignoreOtherParameters, duplicate parameter names and deliberately ambiguous sets (model = implementation only). "
        "Objects x outputs: expectations on one function that differ only by the object (2-3 objects), each with its own output bytes "
        "(1-8 bytes, 1-2 output parameters) and return value, optionally with input parameters; every actual call passes object, outputs "
        "and inputs in a shuffled order and one call in every permutation of its items; mutations: missing object, unexpected object, "
        "object of a used-up expectation, wrong/extra/missing output parameter, object passed twice; mixed sets (some expectations "
        "without object) as model = implementation only. Scopes: 2-4 of mock() and mock(\"s1..3\") with their own expectation sets "
        "(same function names reused across scopes), expectations and calls of the scopes interleaved, creation order varied, one "
        "mutation in one scope (so that exactly one scope, first / middle / last created, deviates), strictOrder / ignoreOtherCalls on "
        "mock() before and after a scope exists and on single scopes; non-canonical: expectedCallsLeft, scope-level checkExpectations "
        "and clear, global clear, disable/enable in the middle. "
        "End of test through the plugin (:post instead of :chk, reporter does not leave): a share of every canonical family, and a "
        "systematic family over 2-3 scopes in every creation order where the LAST actual call of one scope (each in turn: global, "
        "first / middle / last created) lacks an input parameter, an output parameter or the object while the other scopes are "
        "fine, have an unfulfilled expectation, an incomplete last call of their own, or (strict) calls out of order -- the number "
        "of failures delivered and their diagnoses are judged. Outputs under ignoreOtherParameters: 1-3 expectations on one "
        "function with ignoreOtherParameters, 1-2 output parameters with their own bytes, distinct return values, 0-1 distinguishing "
        "input; each call passes the expected items plus 1-2 ignored output / input parameters (and optionally an object) in every "
        "order (<= 4 items) or sampled orders, return value asked for; also mixed with expectations that do not ignore. "
        "The object as a value: the object pool contains the null object (onObject(NULLPTR)); grid expected object {null, none, A} x "
        "object of the call {null, none, A, B} x 6 shapes (bare, return value, parameters, output, count 2, both) on mock() or a scope, "
        "ended by the explicit check or the plugin's; two expectations on one function that differ only by the object, one of them "
        "the null object, calls in both orders with one call redirected (other object, no object, third object, both on one). "
        "Runs of 2-5 tests with the real MockSupportPlugin installed and ONE TestResult: grid of what the earlier test did (own check "
        "fails before / between / after its mock operations, mock failure in the body, failed by the plugin for an unfulfilled "
        "expectation / calls out of order / incomplete last call / surplus call, passed) x what the later test needs (passes, to be "
        "failed by the plugin in each way, fails on its own), the later test on the same or other function names, optionally a passing "
        "test in front or a test in between; a test cut by a failing check at every position followed by the complete test; bare "
        "failing test in front of every kind; empty tests; random runs. "
        "Tests with a TEARDOWN section (checkExpectations / clear on mock() or a scope, 6 shapes incl. the usual check-then-clear, clear "
        "first, check twice, a single scope's check in front) under the default reporter: bodies that deviate TWICE -- a deviation only a "
        "check diagnoses (strict: one / two calls out of order, out of order plus unfulfilled; unfulfilled expectation; incomplete last "
        "call) in scope A x a deviation that fails at the call (unexpected call, surplus call, wrong value, unknown / extra parameter, "
        "wrong object, unknown output parameter) or the test's own failing check or a failing explicit check, in scope B, A and B over "
        "mock() and two named scopes, same and different -- the test must fail exactly once; every kind of body (passing, unfulfilled, "
        "failing call, out of order, incomplete, surplus, two incomplete scopes) x own failing check at any position x every teardown "
        "shape, where the teardown's check is the scenario's final check; such tests in runs in front of / behind tests without teardown. "
        "non-trivial = at least one expectation and one actual call")
ASSUMPTIONS = ["LP64 data model", "function and parameter names are distinct non-empty strings without special characters",
               "no custom types / comparators / copiers (..OfType), tracing off, scopes one level deep (mock(\"name\"))",
               "output data of at most 8 bytes into caller buffers of 8 bytes",
               "runs: tests of one private TestRegistry run in the current process by TestRegistry::runAllTests, MockSupportPlugin the only "
               "plugin, a test's own check fails through FAIL (the test is left), no explicit :post inside a test of a run",
               "teardown of a test: only mock().checkExpectations() / mock().clear() on mock() or a named scope (no own checks, no calls)"]

VALUES = [":b 0", ":b 1", ":i 0 1", ":i 1 1", ":i 0 2", ":i 2 -1", ":i 3 ffffffffffffffff", ":i 4 -8000000000000000", ":i 5 2",
          ":s " + tb(b"a"), ":s " + tb(b"b"), ":s " + tb(b""), ":p 1000", ":p 1008", ":i 0 -1"]
RETS = [":b 1", ":i 0 -5", ":i 1 fffffffe", ":i 2 -100000000", ":i 3 8000000000000001", ":i 4 7", ":i 5 ffffffffffffffff",
        ":s " + tb(b"ret"), ":p 2000"]


def params_tok(ps):
    return "%x %s" % (len(ps), " ".join("%x %s" % (n, v) for n, v in ps)) if ps else "0"


def exp_tok(e):
    n, f, ps, ret, ign = e
    return ":e %x %x %s %s %x" % (n, f, params_tok(ps), ret if ret else "~", 1 if ign else 0)


def call_tok(c):
    f, ps, want = c
    return ":c %x %s %x" % (f, params_tok(ps), 1 if want else 0)


def join(parts):
    return " ".join(p for p in parts if p)


def gen_exps(rng, nexp, nfun, ign_p=0.0, dup_p=0.0):
    """Expectations sharing parameter-name signatures per function so that they differ in values (or are identical)."""
    sigs = {}
    exps = []
    for _ in range(nexp):
        f = rng.randrange(nfun)
        if f not in sigs or rng.random() < 0.15:
            k = rng.choice([0, 1, 1, 2, 2, 3])
            sigs[f] = rng.sample(range(3), k)
        names = list(sigs[f])
        if exps and rng.random() < 0.3:
            same = [e for e in exps if e[1] == f]
            if same:   # identical to / one value away from an earlier expectation
                ps = list(rng.choice(same)[2])
                if ps and rng.random() < 0.6:
                    i = rng.randrange(len(ps))
                    ps[i] = (ps[i][0], rng.choice(VALUES))
                exps.append((rng.choice([1, 1, 1, 2, 3, 0]), f, ps, rng.choice(RETS) if rng.random() < 0.6 else None, rng.random() < ign_p))
                continue
        ps = [(n, rng.choice(VALUES)) for n in names]
        if ps and rng.random() < dup_p:
            ps.append((ps[0][0], rng.choice(VALUES)))
        exps.append((rng.choice([1, 1, 1, 2, 3, 0]), f, ps, rng.choice(RETS) if rng.random() < 0.6 else None, rng.random() < ign_p))
    return exps


def matching_calls(rng, exps, shuffle_params=True, extra_for_ign=False):
    calls = []
    for (n, f, ps, ret, ign) in exps:
        for _ in range(n):
            q = list(ps)
            if ign and extra_for_ign and rng.random() < 0.6:
                q.append((rng.choice([3, 4]), rng.choice(VALUES)))
            if shuffle_params:
                rng.shuffle(q)
            calls.append((f, q, rng.random() < 0.5))
    return calls


MUTATIONS = ["none", "drop", "dup", "extra_known", "extra_unknown", "wrong_value", "wrong_name", "extra_param", "missing_param", "swap",
             "dup_param"]


def mutate(rng, calls, kind, pos, nfun):
    c = [(f, list(ps), w) for f, ps, w in calls]
    if kind == "none" or not c and kind not in ("extra_known", "extra_unknown"):
        return c
    pos = min(pos, max(len(c) - 1, 0))
    if kind == "drop":
        del c[pos]
    elif kind == "dup":
        c.insert(pos, c[pos])
    elif kind == "extra_known":
        c.insert(pos, (rng.randrange(nfun), [(n, rng.choice(VALUES)) for n in rng.sample(range(3), rng.randrange(3))], rng.random() < 0.5))
    elif kind == "extra_unknown":
        c.insert(pos, (7, [(0, VALUES[2])] if rng.random() < 0.5 else [], rng.random() < 0.5))
    elif kind == "wrong_value":
        f, ps, w = c[pos]
        if ps:
            i = rng.randrange(len(ps))
            ps[i] = (ps[i][0], rng.choice([v for v in VALUES if v != ps[i][1]]))
    elif kind == "wrong_name":
        f, ps, w = c[pos]
        if ps:
            i = rng.randrange(len(ps))
            ps[i] = (rng.choice([n for n in range(5) if n != ps[i][0]]), ps[i][1])
    elif kind == "extra_param":
        f, ps, w = c[pos]
        ps.insert(rng.randrange(len(ps) + 1), (rng.choice([n for n in range(5) if n not in [x[0] for x in ps]]), rng.choice(VALUES)))
    elif kind == "missing_param":
        f, ps, w = c[pos]
        if ps:
            del ps[rng.randrange(len(ps))]
    elif kind == "swap":
        if pos + 1 < len(c):
            c[pos], c[pos + 1] = c[pos + 1], c[pos]
    elif kind == "dup_param":
        f, ps, w = c[pos]
        if ps:
            ps.insert(rng.randrange(len(ps) + 1), ps[rng.randrange(len(ps))])
    return c


def scen(pre, exps, calls, tail=":chk"):
    return join(pre + [exp_tok(e) for e in exps] + [call_tok(c) for c in calls] + [tail])


def orders(rng, calls, limit):
    if len(calls) <= 4:
        seen = []
        for p in itertools.permutations(range(len(calls))):
            seen.append([calls[i] for i in p])
        rng.shuffle(seen)
        return seen[:limit]
    out = [list(calls)]
    for _ in range(limit - 1):
        q = list(calls)
        rng.shuffle(q)
        out.append(q)
    return out


OBJS = [0x1000, 0x1008, 0x2000, 0]        # 0 = the null object: onObject(NULLPTR)


def outs_tok(outs):
    return "%x %s" % (len(outs), " ".join("%x %s" % (n, tb(b)) for n, b in outs)) if outs else "0"


def expx_tok(e):
    """(count, f, inputs, outputs [(name, bytes)], object or None, ret or None, ign)"""
    n, f, ps, outs, obj, ret, ign = e
    if not outs and obj is None:
        return exp_tok((n, f, ps, ret, ign))
    return ":E %x %x %s %s %s %s %x" % (n, f, params_tok(ps), outs_tok(outs), "~" if obj is None else "%x" % obj, ret if ret else "~", 1 if ign else 0)


def item_tok(it):
    if it[0] == "in":
        return ":in %x %s" % (it[1], it[2])
    if it[0] == "out":
        return ":out %x %s" % (it[1], tb(it[2]))
    return ":obj %x" % it[1]


def callx_tok(c):
    f, its, want = c
    if all(it[0] == "in" for it in its):
        return call_tok((f, [(it[1], it[2]) for it in its], want))
    return ":C %x %x %s %x" % (f, len(its), " ".join(item_tok(it) for it in its), 1 if want else 0) if its else ":C %x 0 %x" % (f, 1 if want else 0)


def in_scope(s, tok):
    return (":s %x " % s + tok) if s else tok


def rbytes(rng, n):
    return bytes(rng.randrange(1, 255) for _ in range(n))


def filler(rng):
    return bytes([rng.choice([0x00, 0x11, 0x5a, 0xee])] * 8)


def old_to_x(exps):
    return [(n, f, ps, [], None, ret, ign) for (n, f, ps, ret, ign) in exps]


def gen_obj_exps(rng, nfun, mixed=False):
    """Per function a family of expectations that differ only by the object, each with distinct output bytes and return value."""
    exps = []
    for f in range(nfun):
        mode = rng.choice(["obj", "obj", "obj", "plain"])
        base_in = [(n, rng.choice(VALUES)) for n in rng.sample(range(3), rng.choice([0, 0, 1, 2]))]
        out_names = rng.sample(range(2), rng.choice([1, 1, 2, 0]))
        objs = rng.sample(OBJS, rng.choice([2, 2, 3])) if mode == "obj" else [None] * rng.choice([1, 2])
        rets = rng.sample(RETS, len(objs))
        for i, ob in enumerate(objs):
            ps = list(base_in)
            if ps and rng.random() < (0.25 if mode == "obj" else 0.9):
                j = rng.randrange(len(ps))
                ps[j] = (ps[j][0], rng.choice(VALUES))
            outs = [(n, rbytes(rng, rng.choice([1, 2, 4, 4, 8, 3, 0]))) for n in out_names]
            o = ob
            if mixed and rng.random() < 0.35:
                o = None if ob is not None else rng.choice(OBJS)
            exps.append((rng.choice([1, 1, 1, 2]), f, ps, outs, o, rets[i] if rng.random() < 0.8 else None, False))
        if rng.random() < 0.25 and exps:   # an identical twin of one of them (same object, other bytes)
            n, f2, ps, outs, o, ret, ign = rng.choice([e for e in exps if e[1] == f])
            exps.append((1, f2, list(ps), [(nm, rbytes(rng, max(1, len(b)))) for nm, b in outs], o, rng.choice(RETS), False))
    rng.shuffle(exps)
    return exps


def matching_callsx(rng, exps, shuffle=True):
    calls = []
    for (n, f, ps, outs, obj, ret, ign) in exps:
        for _ in range(n):
            its = [("in", p, v) for p, v in ps] + [("out", o, filler(rng)) for o, _ in outs]
            if obj is not None:
                its.append(("obj", obj))
            if shuffle:
                rng.shuffle(its)
            calls.append((f, its, rng.random() < 0.6))
    return calls


XMUT = ["drop", "dup", "swap", "extra_unknown", "drop_obj", "wrong_obj", "other_obj", "null_obj", "dup_obj", "add_obj", "extra_out", "wrong_out", "missing_out",
        "wrong_value", "missing_in", "extra_in", "reorder"]


def mutatex(rng, calls, kind, pos):
    c = [(f, list(its), w) for f, its, w in calls]
    if not c:
        return c + ([(7, [], rng.random() < 0.5)] if kind == "extra_unknown" else [])
    pos = min(pos, len(c) - 1)
    f, its, w = c[pos]
    idx = lambda k: [i for i, it in enumerate(its) if it[0] == k]
    if kind == "drop":
        del c[pos]
    elif kind == "dup":
        c.insert(pos, (f, list(its), w))
    elif kind == "swap":
        if pos + 1 < len(c):
            c[pos], c[pos + 1] = c[pos + 1], c[pos]
    elif kind == "extra_unknown":
        c.insert(pos, (7, [("obj", OBJS[0])] if rng.random() < 0.5 else [], rng.random() < 0.5))
    elif kind == "drop_obj":
        for i in idx("obj")[:1]:
            del its[i]
    elif kind == "wrong_obj":
        for i in idx("obj")[:1]:
            its[i] = ("obj", 0x3000)
    elif kind == "null_obj":     # the call is made on the null object instead / on a real object instead of the null object
        for i in idx("obj")[:1]:
            its[i] = ("obj", 0 if its[i][1] != 0 else rng.choice(OBJS[:3]))
    elif kind == "other_obj":
        for i in idx("obj")[:1]:
            its[i] = ("obj", rng.choice([o for o in OBJS if o != its[i][1]]))
    elif kind == "dup_obj":
        for i in idx("obj")[:1]:
            its.insert(rng.randrange(len(its) + 1), ("obj", rng.choice(OBJS)))
    elif kind == "add_obj":
        if not idx("obj"):
            its.insert(rng.randrange(len(its) + 1), ("obj", rng.choice(OBJS)))
    elif kind == "extra_out":
        its.insert(rng.randrange(len(its) + 1), ("out", rng.choice([2, 3]), filler(rng)))
    elif kind == "wrong_out":
        for i in idx("out")[:1]:
            its[i] = ("out", rng.choice([n for n in range(4) if n != its[i][1]]), its[i][2])
    elif kind == "missing_out":
        for i in idx("out")[:1]:
            del its[i]
    elif kind == "wrong_value":
        for i in idx("in")[:1]:
            its[i] = ("in", its[i][1], rng.choice([v for v in VALUES if v != its[i][2]]))
    elif kind == "missing_in":
        for i in idx("in")[:1]:
            del its[i]
    elif kind == "extra_in":
        its.insert(rng.randrange(len(its) + 1), ("in", rng.choice([3, 4]), rng.choice(VALUES)))
    elif kind == "reorder":
        rng.shuffle(its)
    return c


def scenx(pre, exps, calls, tail=(":chk",)):
    return join(list(pre) + [expx_tok(e) for e in exps] + [callx_tok(c) for c in calls] + list(tail))


def gen_objects(rng, tier, out):
    nsets = 70 if tier == "quick" else 2000
    for k in range(nsets):
        mixed = (k % 7 == 6)
        exps = gen_obj_exps(rng, rng.choice([1, 1, 2]), mixed)
        pre = []
        if rng.random() < 0.3:
            pre.append(":strict")
        if rng.random() < 0.1:
            pre.append(":ign")
        for rnd in range(2 if tier == "quick" else 4):
            base = matching_callsx(rng, exps)
            rng.shuffle(base)
            base = base[:6]
            out.append(scenx(pre, exps, base))
            # one call in every order of its items (object first, output first, ...)
            if base:
                j = rng.randrange(len(base))
                f, its, w = base[j]
                perms = list(itertools.permutations(its)) if len(its) <= 3 else [tuple(rng.sample(its, len(its))) for _ in range(6)]
                for pm in perms:
                    out.append(scenx(pre, exps, base[:j] + [(f, list(pm), True)] + base[j + 1:]))
            for pos in range(len(base) + 1):
                out.append(scenx(pre, exps, mutatex(rng, base, rng.choice(XMUT), pos)))
        inorder = matching_callsx(rng, exps, shuffle=False)
        out.append(scenx(pre, exps, inorder))
        for kind in XMUT:
            out.append(scenx(pre, exps, mutatex(rng, inorder, kind, rng.randrange(len(inorder) + 1))))
        if inorder:
            h = rng.randrange(len(inorder) + 1)
            out.append(join(pre + [expx_tok(e) for e in exps] + [callx_tok(c) for c in inorder[:h]] + [":left", ":chk"] + [callx_tok(c) for c in inorder[h:]] + [":left", ":chk"]))


def interleave(rng, seqs):
    """Random merge of the sequences that keeps each sequence's own order."""
    seqs = [list(q) for q in seqs if q]
    out = []
    while seqs:
        q = rng.choice(seqs)
        out.append(q.pop(0))
        if not q:
            seqs.remove(q)
    return out


def gen_scopes(rng, tier, out):
    nsets = 110 if tier == "quick" else 3500
    for k in range(nsets):
        scopes = rng.choice([[0, 1], [1, 2], [0, 1, 2], [1, 2, 3], [2, 1], [0, 2, 1, 3], [1, 2]])
        cfg = []
        style = k % 6
        if style == 1:
            cfg = [":strict"]
        elif style == 2:
            cfg = [":ign"]
        elif style == 3:     # a scope exists before mock() is configured: ignoreOtherCalls reaches it, strictOrder does not
            named = [s for s in scopes if s] or [1]
            rng.shuffle(named)
            cfg = [in_scope(s0, rng.choice([":strict", ":ign"])) for s0 in named[:rng.choice([1, 2, 2, 3])]]
            cfg.append(rng.choice([":strict", ":ign", ":ign"]))
            if rng.random() < 0.4:
                cfg.append(rng.choice([":strict", ":ign"]))
        elif style == 4:     # single scopes configured
            cfg = [in_scope(rng.choice(scopes), rng.choice([":strict", ":ign"])) for _ in range(rng.choice([1, 2]))]
        per = {}
        for s in scopes:
            if rng.random() < 0.3:
                ex = gen_obj_exps(rng, 1)
            else:
                ex = old_to_x(gen_exps(rng, rng.choice([1, 1, 2, 3]), rng.choice([1, 2])))
            if rng.random() < 0.08:
                ex = []
            per[s] = ex
        order = list(scopes)
        for rnd in range(3 if tier == "quick" else 6):
            rng.shuffle(order)      # creation order of the scopes
            etoks = interleave(rng, [[in_scope(s, expx_tok(e)) for e in per[s]] for s in order]) if rng.random() < 0.5 else \
                [in_scope(s, expx_tok(e)) for s in order for e in per[s]]
            calls = {s: matching_callsx(rng, per[s], shuffle=True)[:5] for s in scopes}
            if rnd % 2:
                for s in scopes:
                    rng.shuffle(calls[s])
            def emit(cl, tail=(":chk",)):
                ctoks = interleave(rng, [[in_scope(s, callx_tok(c)) for c in cl[s]] for s in scopes])
                out.append(join(cfg + etoks + ctoks + list(tail)))
            emit(calls)
            # exactly one scope deviates: each scope in turn with a dropped call, then random mutations
            for s in scopes:
                if calls[s]:
                    cl = dict(calls)
                    cl[s] = mutatex(rng, calls[s], "drop", rng.randrange(len(calls[s])))
                    emit(cl)
            for _ in range(3):
                s = rng.choice(scopes)
                cl = dict(calls)
                cl[s] = mutatex(rng, calls[s], rng.choice(XMUT), rng.randrange(len(calls[s]) + 1))
                emit(cl)
            if ":ign" in " ".join(cfg):
                s = rng.choice(scopes)
                cl = dict(calls)
                cl[s] = mutatex(rng, calls[s], "extra_unknown", rng.randrange(len(calls[s]) + 1))
                emit(cl)
        # non-canonical shapes
        calls = {s: matching_callsx(rng, per[s], shuffle=False)[:4] for s in scopes}
        etoks = [in_scope(s, expx_tok(e)) for s in scopes for e in per[s]]
        ctoks = interleave(rng, [[in_scope(s, callx_tok(c)) for c in calls[s]] for s in scopes])
        h = rng.randrange(len(ctoks) + 1)
        s1 = rng.choice(scopes)
        out.append(join(cfg + etoks + ctoks[:h] + [":left"] + ctoks[h:] + [":left", ":chk"]))
        out.append(join(cfg + etoks + ctoks[:h] + [in_scope(s1, ":left"), in_scope(s1, ":chk")] + ctoks[h:] + [":chk"]))
        out.append(join(cfg + etoks + ctoks[:h] + [in_scope(s1, ":clr")] + ctoks[h:] + [":chk"]))
        out.append(join(cfg + etoks + ctoks[:h] + [":clr"] + etoks + ctoks + [":chk"]))
        out.append(join(cfg + etoks + ctoks[:h] + [rng.choice([":dis", in_scope(s1, ":dis")])] + ctoks[h:] + [rng.choice([":en", in_scope(s1, ":en")]), ":left", ":chk"]))
        out.append(join(cfg + etoks[:len(etoks) // 2] + [":dis"] + etoks[len(etoks) // 2:] + [":en"] + ctoks + [":chk"]))
        out.append(join(etoks[:len(etoks) // 2] + cfg + etoks[len(etoks) // 2:] + ctoks[:h] + [rng.choice([":ign", ":strict"])] + ctoks[h:] + [":chk"]))
        out.append(join(cfg + etoks + ctoks))


PMUT = ["missing_in", "missing_out", "drop_obj"]


def gen_post(rng, tier, out):
    """End-of-test check through the plugin: the last actual call of one scope is incomplete while the others are fine / deviate too."""
    nsets = 36 if tier == "quick" else 1200
    layouts = [[0, 1], [1, 0], [1, 2], [0, 1, 2], [1, 0, 2], [2, 1, 0], [1, 2, 3], [0, 2], [2, 1]]
    for k in range(nsets):
        scopes = layouts[k % len(layouts)]
        strict = (k % 4 == 3)
        cfg = [":strict"] if strict else []
        per = {}
        for s in scopes:
            f = rng.randrange(2)
            ps = [(n, rng.choice(VALUES)) for n in rng.sample(range(3), rng.choice([1, 1, 2]))]
            outs = [(0, rbytes(rng, rng.choice([1, 2, 4])))] if rng.random() < 0.4 else []
            obj = rng.choice(OBJS) if rng.random() < 0.35 else None
            ex = [(1, f, ps, outs, obj, rng.choice(RETS) if rng.random() < 0.5 else None, False)]
            if rng.random() < 0.5:       # a second expectation: another function or the same one with another value
                if rng.random() < 0.5:
                    ex.append((rng.choice([1, 2]), f + 2, [], [], None, None, False))
                else:
                    ps2 = list(ps)
                    ps2[0] = (ps2[0][0], rng.choice([v for v in VALUES if v != ps2[0][1]]))
                    ex.append((1, f, ps2, list(outs), obj, rng.choice(RETS), False))
            per[s] = ex
        etoks = [in_scope(s, expx_tok(e)) for s in scopes for e in per[s]]
        calls = {s: matching_callsx(rng, per[s], shuffle=True) for s in scopes}

        def emit(cl, tail=":post"):
            ctoks = interleave(rng, [[in_scope(s, callx_tok(c)) for c in cl[s]] for s in scopes])
            out.append(join(cfg + etoks + ctoks + [tail]))

        def incomplete(s, cl):
            """the last call of scope s loses a parameter / the object and does not ask for its return value"""
            c = list(cl[s])
            if not c:
                return None
            f, its, w = c[-1]
            kinds = [m for m in PMUT if (m == "missing_in" and any(i[0] == "in" for i in its)) or
                     (m == "missing_out" and any(i[0] == "out" for i in its)) or (m == "drop_obj" and any(i[0] == "obj" for i in its))]
            if not kinds:
                return None
            c2 = mutatex(rng, c, rng.choice(kinds), len(c) - 1)
            f, its, w = c2[-1]
            c2[-1] = (f, its, False)
            d = dict(cl)
            d[s] = c2
            return d
        emit(calls)
        emit(calls, ":chk")
        for v in scopes:                      # exactly one scope's last call is incomplete
            d = incomplete(v, calls)
            if d:
                emit(d)
                if rng.random() < 0.3:
                    emit(d, ":chk")
                for u in scopes:              # ... and another scope deviates too
                    if u == v:
                        continue
                    d2 = incomplete(u, d)
                    if d2 and rng.random() < 0.7:
                        emit(d2)
                    if d[u]:
                        d3 = dict(d)
                        d3[u] = mutatex(rng, d[u], "drop", rng.randrange(len(d[u])))
                        emit(d3)
                    if strict and len(d[u]) > 1:
                        d4 = dict(d)
                        d4[u] = mutatex(rng, d[u], "swap", 0)
                        emit(d4)
        u = rng.choice(scopes)                # no incomplete call: unfulfilled / out of order only
        if calls[u]:
            d = dict(calls)
            d[u] = mutatex(rng, calls[u], "drop", rng.randrange(len(calls[u])))
            emit(d)
        if strict and len(calls[u]) > 1:
            d = dict(calls)
            d[u] = mutatex(rng, calls[u], "swap", 0)
            emit(d)
            u2 = rng.choice(scopes)           # out of order AND unfulfilled: "not fulfilled" only
            if u2 != u and d[u2]:
                d[u2] = d[u2][:-1]
            elif len(d[u]) > 2:
                d[u] = d[u][:-1]
            emit(d)
        if rng.random() < 0.3:                # the check made on a scope only
            out.append(join(cfg + etoks + interleave(rng, [[in_scope(s, callx_tok(c)) for c in calls[s]] for s in scopes]) +
                            [in_scope(rng.choice(scopes), ":post"), ":post"]))


def gen_ign_outs(rng, tier, out):
    """Output parameters of the consumed expectation under ignoreOtherParameters, whatever else the call passes, in every order."""
    nsets = 40 if tier == "quick" else 1500
    for k in range(nsets):
        s = rng.choice([0, 0, 1])
        nexp = rng.choice([1, 1, 2, 3])
        out_names = rng.sample(range(2), rng.choice([1, 1, 2]))
        key = rng.choice([None, 0, 1])          # the input parameter that tells the expectations apart
        vals = rng.sample(VALUES[4:], nexp)
        rets = rng.sample(RETS, nexp)
        exps = []
        for i in range(nexp):
            ps = [(key, vals[i])] if key is not None else []
            outs = [(n, rbytes(rng, rng.choice([1, 2, 4, 4, 8]))) for n in out_names]
            ign = True if (k % 5 != 4) else (rng.random() < 0.5)     # every fifth set mixes in expectations that do not ignore
            exps.append((1, 0, ps, outs, None, rets[i], ign))
        etoks = [in_scope(s, expx_tok(e)) for e in exps]
        base = []
        for (n, f, ps, outs, obj, ret, ign) in exps:
            its = [("in", p, v) for p, v in ps] + [("out", o, filler(rng)) for o, _ in outs]
            base.append((f, its, True, ign))
        extras_pool = [("out", 2, filler(rng)), ("out", 3, filler(rng)), ("in", 3, rng.choice(VALUES)), ("in", 4, rng.choice(VALUES)),
                       ("obj", rng.choice(OBJS))]
        for rnd in range(2 if tier == "quick" else 3):
            j = rng.randrange(len(base))
            f, its, w, ign = base[j]
            extras = rng.sample(extras_pool[:4], rng.choice([1, 1, 2])) + ([extras_pool[4]] if rng.random() < 0.15 else [])
            full = its + extras
            perms = list(itertools.permutations(full)) if len(full) <= 4 else [tuple(rng.sample(full, len(full))) for _ in range(10)]
            if len(perms) > 12:
                perms = rng.sample(perms, 12) + [tuple(extras + its)]       # always: the ignored ones first
            for pm in perms:
                calls = []
                for i2, (f2, its2, w2, ign2) in enumerate(base):
                    if i2 == j:
                        calls.append((f2, list(pm), True if rng.random() < 0.85 else False))
                    else:
                        e2 = rng.sample(extras_pool[:4], rng.choice([0, 1])) if ign2 else []
                        q = its2 + e2
                        rng.shuffle(q)
                        calls.append((f2, q, rng.random() < 0.8))
                rng.shuffle(calls)
                out.append(join(etoks + [in_scope(s, callx_tok(c)) for c in calls] + [rng.choice([":chk", ":chk", ":post"])]))

def gen_null_object(rng, tier, out):
    """The object of a call as a value: expectations on the null object / on no object / on a real object against calls on the null
    object / on no object / on that object / on another one -- alone, with parameters and outputs around it, twice, in a scope."""
    A, B = 0x1000, 0x1008
    reps = 1 if tier == "quick" else 12
    for _ in range(reps):
        for eobj in (0, None, A):
            for aobj in (0, None, A, B):
                for shape in range(6):
                    f = rng.randrange(2)
                    ps = [(n, rng.choice(VALUES)) for n in rng.sample(range(3), 0 if shape < 2 else rng.choice([1, 2]))]
                    outs = [(0, rbytes(rng, rng.choice([1, 4, 8])))] if shape in (3, 5) else []
                    ret = rng.choice(RETS) if shape % 2 else None
                    n = 2 if shape == 4 else 1
                    e = (n, f, ps, outs, eobj, ret, False)
                    its = [("in", p, v) for p, v in ps] + [("out", o, filler(rng)) for o, _ in outs]
                    if aobj is not None:
                        its.insert(rng.randrange(len(its) + 1), ("obj", aobj))
                    calls = [(f, list(its), rng.random() < 0.5) for _ in range(n)]
                    sc = rng.choice([0, 0, 1])
                    tail = rng.choice([":chk", ":chk", ":post"])
                    out.append(join([in_scope(sc, expx_tok(e))] + [in_scope(sc, callx_tok(c)) for c in calls] + [tail]))
        # two expectations on one function that differ only by the object, one of them the null object: calls in both orders, one
        # of them redirected to the other object / to no object / to a third one
        for other in (A, None):
            for order in (0, 1):
                for redirect in (None, "swap", "drop", "third", "both_null", "both_other"):
                    f = rng.randrange(2)
                    ps = [(0, rng.choice(VALUES))] if rng.random() < 0.5 else []
                    r0, r1 = rng.sample(RETS, 2)
                    exps = [(1, f, ps, [], 0, r0, False), (1, f, ps, [], other, r1, False)]
                    objs = [0, other]
                    if redirect == "swap":
                        objs = [other, 0]
                    elif redirect == "drop":
                        objs = [None, other]
                    elif redirect == "third":
                        objs = [B, other]
                    elif redirect == "both_null":
                        objs = [0, 0]
                    elif redirect == "both_other":
                        objs = [other, other]
                    calls = []
                    for ob in objs:
                        its = [("in", p, v) for p, v in ps]
                        if ob is not None:
                            its.insert(rng.randrange(len(its) + 1), ("obj", ob))
                        calls.append((f, its, True))
                    if order:
                        exps.reverse()
                    if rng.random() < 0.5:
                        calls.reverse()
                    out.append(scenx([":strict"] if rng.random() < 0.25 else [], exps, calls, (rng.choice([":chk", ":post"]),)))


BODY_KINDS = ["pass", "unfulfilled", "midfail", "ooo", "incomplete", "surplus", "incomplete2"]


def test_body(rng, kind, fbase=0, scope=None):
    """The mock operations of one test (no check at the end: the plugin makes it), as token strings.
    pass: calls match; unfulfilled: one call missing; midfail: a call that deviates at once; ooo: strict order, two calls swapped;
    incomplete: the last call lacks a parameter and nobody asks for its value; surplus: one call too many at the end;
    incomplete2: an incomplete last call on mock() and one on a scope (the plugin delivers two failures)."""
    if kind == "incomplete2":
        a = test_body(rng, "incomplete", fbase, 0)
        b = test_body(rng, "incomplete", fbase, rng.choice([1, 2]))
        return interleave(rng, [a, b]) if rng.random() < 0.5 else a + b
    nfun = rng.choice([1, 2])
    exps = [(max(n, 1), f + fbase, ps, ret, ign) for (n, f, ps, ret, ign) in gen_exps(rng, rng.choice([1, 1, 2, 3]), nfun)]
    if kind == "incomplete" and not any(e[2] for e in exps):
        exps[0] = (exps[0][0], exps[0][1], [(0, rng.choice(VALUES))], exps[0][3], False)
    if kind == "ooo":
        exps = [(1, fbase, [(0, VALUES[2])], None, False), (1, fbase + 1 if rng.random() < 0.5 else fbase, [(0, VALUES[4])], None, False)] + \
               ([(1, fbase + 2, [], None, False)] if rng.random() < 0.4 else [])
    calls = matching_calls(rng, exps, shuffle_params=True)
    pre = [":strict"] if (kind == "ooo" or rng.random() < 0.15) else []
    strict = bool(pre)
    if not strict:
        rng.shuffle(calls)
    if kind == "unfulfilled" and calls:
        del calls[rng.randrange(len(calls))]
    elif kind == "midfail":
        calls = mutate(rng, calls, rng.choice(["extra_unknown", "wrong_value", "wrong_name", "extra_param", "extra_unknown"]),
                       rng.randrange(len(calls) + 1), nfun)
        if not strict and rng.random() < 0.5:
            calls = calls + [(7, [], False)]
    elif kind == "ooo":
        calls[0], calls[1] = calls[1], calls[0]
    elif kind == "incomplete":
        idx = [i for i, c in enumerate(calls) if c[1]]
        i = idx[-1]
        c = calls.pop(i)
        q = list(c[1])
        del q[rng.randrange(len(q))]
        calls.append((c[0], q, False))
    elif kind == "surplus" and calls:
        calls.append(calls[rng.randrange(len(calls))])
    toks = pre + [exp_tok(e) for e in exps] + [call_tok(c) for c in calls]
    if scope is None:
        scope = rng.choice([1, 2]) if rng.random() < 0.25 else 0      # the test on a named scope
    if scope:
        toks = [in_scope(scope, t) for t in toks]
    return toks


def with_checks(rng, toks, bad):
    """own checks of the test sprinkled over its operations; bad: where the failing one goes (None | "first" | "mid" | "last")"""
    t = list(toks)
    if bad == "first":
        t.insert(0, ":bad")
    elif bad == "last":
        t.append(":bad")
    elif bad == "mid":
        t.insert(rng.randrange(len(t) + 1), ":bad")
    for _ in range(rng.choice([0, 0, 1, 2])):
        t.insert(rng.randrange(len(t) + 1), ":ok")
    return t


def run_tok(tests):
    return " ".join(join([":T"] + list(t)) for t in tests)


def gen_runs(rng, tier, out):
    """Runs of 2-5 tests sharing one TestResult, the MockSupportPlugin installed.  Grid: what the EARLIER test did (failed on its own
    check before / between / after its mock operations, failed on a mock failure, was failed by the plugin (unfulfilled, out of
    order, incomplete last call, surplus call), passed) x what the LATER test needs (passes, must be failed by the plugin in each of
    these ways, fails on its own) -- the later test also expecting the same functions as the earlier one left unfulfilled."""
    firsts = [("pass", None), ("pass", "first"), ("pass", "mid"), ("pass", "last"), ("unfulfilled", "mid"), ("midfail", None),
              ("unfulfilled", None), ("ooo", None), ("incomplete", None), ("surplus", None), ("incomplete", "last"), ("midfail", "last")]
    seconds = [("pass", None), ("unfulfilled", None), ("ooo", None), ("incomplete", None), ("surplus", None), ("midfail", None),
               ("unfulfilled", "last"), ("pass", "mid"), ("incomplete2", None)]
    reps = 2 if tier == "quick" else 30
    for _ in range(reps):
        for (k1, b1) in firsts:
            for (k2, b2) in seconds:
                t1 = with_checks(rng, test_body(rng, k1), b1)
                fb = 0 if rng.random() < 0.6 else 4          # same function names as the earlier test / other ones
                t2 = with_checks(rng, test_body(rng, k2, fb), b2)
                tests = [t1, t2]
                r = rng.random()
                if r < 0.3:      # a test that passes in front, so that the failing one is not the first of the run
                    tests.insert(0, with_checks(rng, test_body(rng, "pass"), None))
                elif r < 0.5:    # the interesting test comes third: one more test in between
                    tests.insert(1, with_checks(rng, test_body(rng, rng.choice(BODY_KINDS)), rng.choice([None, None, "mid"])))
                if rng.random() < 0.3:
                    tests.append(with_checks(rng, test_body(rng, rng.choice(BODY_KINDS)), rng.choice([None, None, "last"])))
                out.append(run_tok(tests))
                if tier == "quick" and (k1, b1) in (("pass", "first"), ("midfail", None), ("unfulfilled", None)):
                    out.append(run_tok([t1, t2, t2]))           # the same test twice after the failure
    # the earlier test leaves EXACTLY the expectations the later one fulfils / a bare failing check in front of every kind
    for _ in range(40 if tier == "quick" else 1500):
        body = test_body(rng, "pass")
        k = rng.randrange(len(body) + 1)
        left = with_checks(rng, body, None)
        cut = body[:k] + [":bad"] + body[k:]
        out.append(run_tok([cut, left]))
        out.append(run_tok([[":bad"], with_checks(rng, test_body(rng, rng.choice(BODY_KINDS)), None)]))
        out.append(run_tok([[":ok"], [], with_checks(rng, test_body(rng, rng.choice(BODY_KINDS)), None), [":bad"], left]))
    # longer random runs
    for _ in range(60 if tier == "quick" else 3000):
        n = rng.choice([3, 4, 5])
        out.append(run_tok([with_checks(rng, test_body(rng, rng.choice(BODY_KINDS)), rng.choice([None, None, None, "first", "mid", "last"]))
                            for _ in range(n)]))


TD_SHAPES = [[":chk", ":clr"], [":chk", ":clr"], [":chk"], [":clr", ":chk"], [":chk", ":chk", ":clr"], [":clr"]]
IMMEDIATE = ["unexpected", "surplus", "wrong_value", "wrong_name", "extra_param", "wrong_obj", "no_obj_expected_name"]
LATE = ["ooo1", "ooo2", "unfulfilled", "incomplete", "ooo_unfulfilled"]


def immediate_fail(rng, kind, f):
    """-> (expectation tokens, call tokens): the LAST call deviates at the call (the default reporter leaves the body there)"""
    v, v2 = VALUES[2], VALUES[4]
    want = rng.random() < 0.3
    if kind == "unexpected":
        return [], [call_tok((7, [], want))]
    if kind == "surplus":
        return [exp_tok((1, f, [], None, False))], [call_tok((f, [], False)), call_tok((f, [], want))]
    if kind == "wrong_value":
        return [exp_tok((1, f, [(0, v)], None, False))], [call_tok((f, [(0, v2)], want))]
    if kind == "wrong_name":
        return [exp_tok((1, f, [(0, v)], None, False))], [call_tok((f, [(1, v)], want))]
    if kind == "extra_param":
        return [exp_tok((1, f, [(0, v)], None, False))], [call_tok((f, [(0, v), (2, v2)], want))]
    if kind == "wrong_obj":
        return [expx_tok((1, f, [], [], rng.choice([0x1000, 0]), None, False))], [callx_tok((f, [("obj", 0x2000)], want))]
    return [exp_tok((1, f, [], None, False))], [callx_tok((f, [("out", 0, filler(rng))], want))]      # unexpected output parameter name


def late_deviation(rng, kind, f):
    """-> (pre tokens, expectation tokens, call tokens): every call goes through; the deviation is only diagnosed by checkExpectations"""
    v, v2 = VALUES[2], VALUES[4]
    if kind in ("ooo1", "ooo2", "ooo_unfulfilled"):
        g = f + 1 if rng.random() < 0.6 else f
        exps = [(1, f, [(0, v)], None, False), (1, g, [(0, v2)], None, False)]
        calls = [(g, [(0, v2)], False)] + ([(f, [(0, v)], False)] if kind == "ooo2" else [])
        if kind == "ooo_unfulfilled":
            exps.append((1, f + 2, [], None, False))
        return [":strict"], [exp_tok(e) for e in exps], [call_tok(c) for c in calls]
    if kind == "unfulfilled":
        exps = [(1, f, [], None, False), (rng.choice([1, 2]), f + 1, [(0, v)], None, False)]
        return [], [exp_tok(e) for e in exps], [call_tok((f, [], False))] if rng.random() < 0.7 else []
    # incomplete: the last call lacks a parameter and nobody asks for its value
    exps = [(1, f, [(0, v), (1, v2)], None, False)]
    return [], [exp_tok(e) for e in exps], [call_tok((f, [(0, v)], False))]


def td_tok(rng, scopes, shape=None):
    """a teardown: checkExpectations / clear on mock(), optionally a check of a single scope in front / instead"""
    shape = list(shape if shape is not None else rng.choice(TD_SHAPES))
    named = [sc for sc in scopes if sc]
    r = rng.random()
    if named and r < 0.35:
        shape = [in_scope(rng.choice(named), ":chk")] + shape
    elif named and r < 0.5:
        shape = [in_scope(sc, ":chk") for sc in named] + ([":clr"] if rng.random() < 0.5 else [])
    elif named and r < 0.6:
        shape = [in_scope(named[0], ":clr")] + shape
    return [":D"] + shape


def two_deviations(rng, late, imm, sa, sb, lead_ok=False):
    """the body of a test that deviates twice: a deviation only a check diagnoses (scope sa), then one that fails at the call (scope sb;
    imm = "own": the test's own check fails instead; imm = "chk": an explicit check in the body fails on a scope's incomplete call)"""
    pre, le, lc = late_deviation(rng, late, 0)
    body = [in_scope(sa, t) for t in pre + le]
    if imm in ("own", "chk"):
        body += [in_scope(sa, t) for t in lc]
        body.append(":bad" if imm == "own" else in_scope(sb, ":chk"))
        if imm == "chk" and rng.random() < 0.5:
            body.append(call_tok((9, [], False)))
        return body
    ie, ic = immediate_fail(rng, imm, 4)
    ie = [in_scope(sb, t) for t in ie]
    ic = [in_scope(sb, t) for t in ic]
    lc = [in_scope(sa, t) for t in lc]
    if sa == sb and pre:          # strict order holds for the whole scope: the failing call's expectation comes last
        body += ie + lc + ic
    else:
        calls = interleave(rng, [lc, ic[:-1]]) if rng.random() < 0.5 else lc + ic[:-1]
        body = (ie + body if rng.random() < 0.5 else body + ie) + calls + [ic[-1]]
    if rng.random() < 0.4:
        body.append(call_tok((0, [], False)))       # never reached
    if lead_ok:
        body.insert(0, ":ok")
    return body


def gen_teardown(rng, tier, out):
    """Tests with a teardown section under the default reporter.  (a) the body deviates twice (late deviation x immediate failure /
    own failing check / failing explicit check, same or different scopes) and the teardown checks: exactly one failure; (b) the body
    passes or deviates in one way only a check can diagnose and the teardown makes that check (the usual idiom: judged like the single
    scenario); (c) such tests inside runs, in front of / behind tests without teardown."""
    reps = 1 if tier == "quick" else 25
    scope_pairs = [(0, 0), (0, 1), (1, 0), (1, 1), (1, 2), (2, 1)]
    for _ in range(reps):
        for late in LATE:
            for imm in IMMEDIATE + ["own", "chk"]:
                for (sa, sb) in scope_pairs:
                    if tier == "quick" and (sa, sb) not in ((0, 0), (1, 2), (0, 1)) and rng.random() < 0.6:
                        continue
                    body = two_deviations(rng, late, imm, sa, sb, lead_ok=rng.random() < 0.2)
                    td = td_tok(rng, {sa, sb})
                    tests = [body + td]
                    r = rng.random()
                    if r < 0.25:
                        tests.append(with_checks(rng, test_body(rng, rng.choice(BODY_KINDS)), None))           # a plain test behind it
                    elif r < 0.4:
                        tests.insert(0, with_checks(rng, test_body(rng, "pass"), None) + [":D", ":chk", ":clr"])
                    out.append(run_tok(tests))
        # the usual idiom on every kind of body: the teardown's check is the scenario's final check
        for kind in BODY_KINDS:
            for bad in (None, None, "first", "mid", "last"):
                for shape in TD_SHAPES:
                    if tier == "quick" and rng.random() < 0.5:
                        continue
                    t1 = with_checks(rng, test_body(rng, kind), bad) + td_tok(rng, {0}, shape)
                    tests = [t1]
                    if rng.random() < 0.4:
                        k2 = rng.choice(BODY_KINDS)
                        t2 = with_checks(rng, test_body(rng, k2, 0 if rng.random() < 0.6 else 4), rng.choice([None, None, "mid"]))
                        tests.append(t2 + (td_tok(rng, {0, 1, 2}) if rng.random() < 0.5 else []))
                    out.append(run_tok(tests))
    # scopes: the body's mock operations on scopes, the teardown checks single scopes and / or mock()
    for _ in range(60 if tier == "quick" else 3000):
        kind = rng.choice(BODY_KINDS)
        sc = rng.choice([1, 2])
        t = with_checks(rng, test_body(rng, kind, 0, sc), rng.choice([None, None, None, "mid", "last"]))
        out.append(run_tok([t + td_tok(rng, {sc, rng.choice([0, 1, 2])})]))
    # random runs of tests with and without teardown
    for _ in range(60 if tier == "quick" else 3000):
        tests = []
        for _ in range(rng.choice([2, 3, 4])):
            r = rng.random()
            if r < 0.35:
                t = two_deviations(rng, rng.choice(LATE), rng.choice(IMMEDIATE + ["own", "chk"]), rng.choice([0, 0, 1]), rng.choice([0, 0, 1, 2]))
            else:
                t = with_checks(rng, test_body(rng, rng.choice(BODY_KINDS)), rng.choice([None, None, None, "first", "mid", "last"]))
            tests.append(t + (td_tok(rng, {0, 1, 2}) if rng.random() < 0.7 else []))
        if not any(":D" in t for t in tests):
            tests[0] = tests[0] + [":D", ":chk", ":clr"]
        out.append(run_tok(tests))


def generate(tier, rng):
    out = []
    nsets = 170 if tier == "quick" else 3500
    for k in range(nsets):
        stream = k % 10
        ign_p = 0.5 if stream == 7 else 0.0
        dup_p = 0.5 if stream == 8 else 0.0
        nfun = rng.choice([1, 1, 2, 3])
        exps = gen_exps(rng, rng.choice([1, 2, 2, 3, 3, 4, 5, 6]), nfun, ign_p, dup_p)
        if stream == 9:   # deliberately ambiguous: sub-/supersets of parameters and ignoreOtherParameters on one of two overlapping expectations
            exps = [(n, f, ps[:rng.randrange(len(ps) + 1)] if rng.random() < 0.5 else ps, r, rng.random() < 0.4) for n, f, ps, r, _ in exps]
        strict = rng.random() < 0.4
        pre = []
        if strict:
            pre.append(":strict")
        ignore_calls = rng.random() < 0.15
        if ignore_calls:
            pre.append(":ign")
        base = matching_calls(rng, exps, shuffle_params=True, extra_for_ign=(ign_p > 0))
        if len(base) > 7:
            base = base[:7]
        for order in orders(rng, base, 6 if tier == "quick" else 24):
            out.append(scen(pre, exps, order))
            # one mutation at each position
            for pos in range(len(order) + 1):
                kind = rng.choice(MUTATIONS[1:])
                out.append(scen(pre, exps, mutate(rng, order, kind, pos, nfun)))
        # in-order sequence explicitly (the one strict order accepts), and every single mutation kind on it
        inorder = matching_calls(rng, exps, shuffle_params=False)
        out.append(scen(pre, exps, inorder))
        for kind in MUTATIONS[1:]:
            out.append(scen(pre, exps, mutate(rng, inorder, kind, rng.randrange(len(inorder) + 1), nfun)))
        # non-canonical shapes: expectations after calls, intermediate check, clear and a second round, strict switched on late
        if inorder:
            h = rng.randrange(len(inorder) + 1)
            out.append(join(pre + [exp_tok(e) for e in exps] + [call_tok(c) for c in inorder[:h]] + [":chk"] + [call_tok(c) for c in inorder[h:]] + [":chk"]))
            out.append(join(pre + [exp_tok(e) for e in exps] + [call_tok(c) for c in inorder[:h]] + [":clr"] + pre + [exp_tok(e) for e in exps] + [call_tok(c) for c in inorder] + [":chk"]))
            j = rng.randrange(len(exps) + 1)
            out.append(join(pre + [exp_tok(e) for e in exps[:j]] + [call_tok(c) for c in inorder[:h]] + [":strict"] + [exp_tok(e) for e in exps[j:]] + [call_tok(c) for c in inorder[h:]] + [":chk"]))
            out.append(join([exp_tok(e) for e in exps] + [call_tok(c) for c in inorder]))   # no final check
    gen_objects(rng, tier, out)
    gen_scopes(rng, tier, out)
    # a share of the canonical scenarios with the plugin's end-of-test check instead of the explicit one
    prng = __import__("random").Random(rng.randrange(1 << 30))
    extra = []
    for sc in out:
        if sc.endswith(" :chk") and sc.count(":chk") == 1 and ":left" not in sc and prng.random() < 0.12:
            extra.append(sc[:-4] + ":post")
    out += extra
    gen_post(rng, tier, out)
    gen_ign_outs(rng, tier, out)
    gen_null_object(rng, tier, out)
    gen_runs(rng, tier, out)
    gen_teardown(rng, tier, out)
    return out


def toks(s):
    return s.split()


OPS0 = (":chk", ":clr", ":strict", ":ign", ":en", ":dis", ":left", ":post", ":ok", ":bad")


def is_run(s):
    return s.startswith(":T")


def split_run(s):
    """-> the token strings of the tests of a run"""
    tests, cur = [], None
    for tk in toks(s):
        if tk == ":T":
            cur = []
            tests.append(cur)
        else:
            cur.append(tk)
    return [" ".join(t) for t in tests]


def parse_run(s):
    """-> per test (body operations, teardown operations or None when the test has no :D section)"""
    res = []
    for t in split_run(s):
        tk = toks(t)
        if ":D" in tk:
            k = tk.index(":D")
            res.append((parse_ops(" ".join(tk[:k])), parse_ops(" ".join(tk[k + 1:]))))
        else:
            res.append((parse_ops(t), None))
    return res


def emit_run(tests):
    return " ".join((":T " + emit_ops(b) + ("" if td is None else " :D " + emit_ops(td))).strip().replace("  ", " ") for b, td in tests)


def read_value(t, i):
    """value ::= :b x | :i ty z | :s $bytes | :p addr  -> (text, next index)"""
    n = 3 if t[i] == ":i" else 2
    return " ".join(t[i:i + n]), i + n


def parse_ops(s):
    """(of a run: all its tests' steps in one list) -> list of (scope, op) with op = ("E", count, f, inputs, outs, obj, ret, ign) | ("C", f, items, want) | (":chk",) ..."""
    t = [x for x in toks(s) if x not in (":T", ":D")]
    i = 0
    ops = []
    while i < len(t):
        scope = 0
        if t[i] == ":s":
            scope = int(t[i + 1], 16)
            i += 2
        k = t[i]
        i += 1
        if k in OPS0:
            ops.append((scope, (k,)))
        elif k in (":e", ":E"):
            n = int(t[i], 16)
            f = int(t[i + 1], 16)
            cnt = int(t[i + 2], 16)
            i += 3
            ps = []
            for _ in range(cnt):
                nm = int(t[i], 16)
                v, i = read_value(t, i + 1)
                ps.append((nm, v))
            outs, obj = [], None
            if k == ":E":
                cnt = int(t[i], 16)
                i += 1
                for _ in range(cnt):
                    outs.append((int(t[i], 16), bytes.fromhex(t[i + 1][1:])))
                    i += 2
                if t[i] != "~":
                    obj = int(t[i], 16)
                i += 1
            ret = None
            if t[i] == "~":
                i += 1
            else:
                ret, i = read_value(t, i)
            ign = t[i] != "0"
            i += 1
            ops.append((scope, ("E", n, f, ps, outs, obj, ret, ign)))
        elif k in (":c", ":C"):
            f = int(t[i], 16)
            cnt = int(t[i + 1], 16)
            i += 2
            its = []
            for _ in range(cnt):
                if k == ":c":
                    nm = int(t[i], 16)
                    v, i = read_value(t, i + 1)
                    its.append(("in", nm, v))
                elif t[i] == ":in":
                    nm = int(t[i + 1], 16)
                    v, i = read_value(t, i + 2)
                    its.append(("in", nm, v))
                elif t[i] == ":out":
                    its.append(("out", int(t[i + 1], 16), bytes.fromhex(t[i + 2][1:])))
                    i += 3
                else:
                    its.append(("obj", int(t[i + 1], 16)))
                    i += 2
            want = t[i] != "0"
            i += 1
            ops.append((scope, ("C", f, its, want)))
        else:
            raise ValueError("op " + k)
    return ops


def emit_ops(ops):
    out = []
    for scope, o in ops:
        if o[0] == "E":
            tok = expx_tok(o[1:])
        elif o[0] == "C":
            tok = callx_tok(o[1:])
        else:
            tok = o[0]
        out.append(in_scope(scope, tok))
    return " ".join(out)


def nontrivial(s):
    t = toks(s)
    return (":c" in t or ":C" in t) and (":e" in t or ":E" in t)


def classify(s):
    t = toks(s)
    labs = ["strict" if ":strict" in t else "any-order"]
    nc = t.count(":c") + t.count(":C")
    labs.append("calls=%d" % min(nc, 8))
    labs.append("exps=%d" % min(t.count(":e") + t.count(":E"), 8))
    scopes = set(sc for sc, _ in parse_ops(s))
    labs.append("scopes=%d" % len(scopes))
    if ":obj" in t:
        labs.append("onObject")
    if ":out" in t:
        labs.append("outputs")
    if ":ign" in t:
        labs.append("ignoreOtherCalls")
    if ":clr" in t:
        labs.append("clear")
    if ":left" in t:
        labs.append("expectedCallsLeft")
    if ":dis" in t:
        labs.append("disable")
    if ":post" in t:
        labs.append("plugin-end-of-test")
    if is_run(s):
        labs.append("run-of-tests")
        labs.append("tests=%d" % min(t.count(":T"), 5))
        if ":bad" in t:
            labs.append("own-check-fails")
        if ":D" in t:
            labs.append("teardown")
            for tt in split_run(s):
                tk = toks(tt)
                if ":D" in tk:
                    td = [x for x in tk[tk.index(":D") + 1:] if x in (":chk", ":clr")]
                    labs.append("teardown=" + ("check-first" if td[:1] == [":chk"] else "clear-first" if td else "empty"))
        if ":obj" in t and any(o[0] == "E" and o[5] == 0 for _, o in parse_ops(s)):
            labs.append("null-object-expected")
        return labs
    if any(o[0] == "E" and o[5] == 0 for _, o in parse_ops(s)):
        labs.append("null-object-expected")
    if any(o[0] == "C" and any(it[0] == "obj" and it[1] == 0 for it in o[2]) for _, o in parse_ops(s)):
        labs.append("call-on-null-object")
    if any(o[0] == "E" and o[7] for _, o in parse_ops(s)):
        labs.append("ignoreOtherParameters")
    if t.count(":chk") + t.count(":post") != 1 or t[-1] not in (":chk", ":post") or ":left" in t or ":dis" in t or ":en" in t:
        labs.append("non-canonical")
    return labs


def run_status(o):
    """per test of a run's observation: own | mock | td=<n> | post=<n> | pass (with +td=<n> / +post=<n> when a failed test got more)"""
    ot = o.split()
    res = []
    try:
        withtd = ot[0] == ":runt"
        n = int(ot[1], 16)
        i = 2
        for _ in range(n):
            own = ot[i] == "1"
            i += 2
            ntd = 0
            if withtd:
                ntd = int(ot[i], 16)
                i += 1
                for _ in range(ntd):
                    i = skip_fail(ot, i + 1)
            failed = ot[i] != "~"
            j, posts = skip_obs(ot, i)
            i = j
            st = "own" if own else "mock" if failed else ""
            if ntd:
                st += ("+" if st else "") + "td=%d" % ntd
            if posts:
                st += ("+" if st else "") + "post=%d" % posts
            res.append(st or "pass")
    except Exception:
        res.append("?")
    return res


def skip_fail(ot, i):
    """index after one failure (kind a b nUnf pairs nFul pairs) starting at ot[i]"""
    i += 3
    n = int(ot[i], 16); i += 1 + 2 * n
    n = int(ot[i], 16); i += 1 + 2 * n
    return i


def skip_obs(ot, i):
    """-> (index after the observation that starts at ot[i], number of end-of-test failures in it)"""
    if ot[i] == "~":
        i += 1
    else:
        i = skip_fail(ot, i + 1)
    n = int(ot[i], 16); i += 1
    for _ in range(n):
        i += 1 if ot[i] == ":n" else (3 if ot[i] == ":i" else 2)
    n = int(ot[i], 16); i += 1 + n
    n = int(ot[i], 16); i += 1 + n
    posts = int(ot[i], 16); i += 1
    for _ in range(posts):
        i = skip_fail(ot, i)
    return i, posts


def signature(s, o):
    if is_run(s):
        st = run_status(o)
        return "run %s%s%s" % ("teardown " if ":D" in toks(s) else "", "own-check " if ":bad" in toks(s) else "", ",".join(sorted(set(st))))
    ot = o.split()
    kind = "pass" if ot and ot[0] == "~" else (ot[1] if len(ot) > 1 else "?")
    t = toks(s)
    if ":post" in t and kind == "pass":       # what the end-of-test check delivered
        n = post_count(ot)
        kind = "post=%s" % ("?" if n is None else n)
    return "%s %s%s%s%s" % ("strict" if ":strict" in t else "any-order", kind, " scopes" if len(set(sc for sc, _ in parse_ops(s))) > 1 else "",
                            " objects/outputs" if (":obj" in t or ":out" in t) else "", " post" if ":post" in t else "")


def post_count(ot):
    """number of failures the :post checks delivered, from the tokens of an observation that did not fail"""
    try:
        i = 1
        n = int(ot[i], 16); i += 1
        for _ in range(n):
            i += 1 if ot[i] == ":n" else (3 if ot[i] == ":i" else 2)
        n = int(ot[i], 16); i += 1 + n
        n = int(ot[i], 16); i += 1 + n
        return int(ot[i], 16)
    except Exception:
        return None


def shrink_run(s):
    tests = parse_run(s)
    for i in range(len(tests)):
        if len(tests) > 1:
            yield emit_run(tests[:i] + tests[i + 1:])
    for i, (t, td) in enumerate(tests):
        def rep(t2, td2):
            return emit_run(tests[:i] + [(t2, td2)] + tests[i + 1:])
        if td is not None:
            if not any(d is not None for k, (_, d) in enumerate(tests) if k != i) or len(td) == 0:
                pass
            else:
                yield rep(t, None)
            for j in range(len(td)):
                if len(td) > 1 or any(d is not None for k, (_, d) in enumerate(tests) if k != i):
                    yield rep(t, td[:j] + td[j + 1:])
            for j, (sc, o) in enumerate(td):
                if sc:
                    yield rep(t, td[:j] + [(0, o)] + td[j + 1:])
        if not t:
            continue
        for cand in shrink(emit_ops(t)):
            yield rep(parse_ops(cand), td)
        if len(t) == 1:
            yield rep([], td)


def shrink(s):
    if is_run(s):
        for c in shrink_run(s):
            yield c
        return
    ops = parse_ops(s)
    for i in range(len(ops)):
        if len(ops) > 1:
            yield emit_ops(ops[:i] + ops[i + 1:])
    for i, (sc, o) in enumerate(ops):
        def rep(o2, sc2=sc):
            return emit_ops(ops[:i] + [(sc2, o2)] + ops[i + 1:])
        if o[0] == "E":
            _, n, f, ps, outs, obj, ret, ign = o
            if n > 1:
                yield rep(("E", 1, f, ps, outs, obj, ret, ign))
            for j in range(len(ps)):
                yield rep(("E", n, f, ps[:j] + ps[j + 1:], outs, obj, ret, ign))
            for j in range(len(outs)):
                yield rep(("E", n, f, ps, outs[:j] + outs[j + 1:], obj, ret, ign))
            if ret is not None:
                yield rep(("E", n, f, ps, outs, obj, None, ign))
        elif o[0] == "C":
            _, f, its, want = o
            for j in range(len(its)):
                yield rep(("C", f, its[:j] + its[j + 1:], want))
            if want:
                yield rep(("C", f, its, False))
    # all operations of one scope moved to mock()
    for sc0 in sorted(set(sc for sc, _ in ops) - {0}):
        yield emit_ops([(0 if sc == sc0 else sc, o) for sc, o in ops])


LEVEL_TEXT = ("Machine-checked (Coq) theorems over an executable model of the mock matching machinery (expectation flags and counters, "
              "candidate pruning, call finalisation, output-parameter copying, end-of-test verdict through checkExpectations() and through "
              "MockSupportPlugin's recording reporter, failure selection; a run of several tests sharing one TestResult with the plugin "
              "installed: body, hasFailed flag, post action, clear, the run's failure counter; the teardown of a test under the default "
              "reporter: the mock state a failing operation leaves behind, checkExpectations / clear with a reporter that drops the failure of "
              "a test that has already failed), tied to the real code by a differential run "
              "of the extracted model against mock() on generated scenarios (all permutations + one mutation per position), with the "
              "extracted model-free spec evaluated on the implementation's observations.")
LEVEL_NOTE = ("Trusted: Coq kernel, extraction, harness and generators. Modelled not verified: the C++ itself. Theorems cover canonical scenarios "
              "(configuration, expectations, calls, final mock().checkExpectations()) over mock() and named scopes with input/output "
              "parameters, onObject in any position and return values, incl. the multiset / strict-sequence verdict (counting theorem) in "
              "every scope; the same scenarios ending with the plugin's end-of-test check (the list of failures it delivers: each "
              "incomplete last call once, never 'not fulfilled' on top, exactly one failure when one deviation); and for EVERY scenario "
              "(ignoreOtherParameters, ambiguous sets, names passed twice, any operations) that the return value and the output bytes a "
              "call hands back are those of one declared expectation of that function and scope (proved of the model for all states); "
              "a run of tests with the plugin installed: every test whose own checks pass is that single scenario on a new mock whatever "
              "the earlier tests did (the run's observation is the list of its tests' own observations, failure counter summed), a test "
              "left at its own failing check fails exactly once, every failure is counted once; the null object is an object; "
              "tests with a teardown under the default reporter: a test that failed in its body gets nothing from the teardown's checks nor "
              "from the plugin (whatever the body left in mock()), a failure delivered in the teardown is the only one, the test with the "
              "usual teardown (check first) is the scenario 'its operations, then checkExpectations()' and after a check that passed nothing "
              "more fails; the reporter without the hasFailed() test is refuted. Teardowns of another shape (clear first, a scope's check "
              "first): once-ness, counting and coherence only. "
              "Which expectation is consumed and the diagnoses under ignoreOtherParameters, object-less expectations called on an object, "
              "a parameter name or object passed twice, intermediate check/clear/expectedCallsLeft, enable/disable: model = implementation "
              "agreement only. Not modelled: custom comparators/copiers, tracing, nested scopes.")
TECHNIQUE = "Coq proof over hand-written executable model + extracted-model/implementation correspondence check (differential, permutations + mutations)"
READY = True
