"""C08 -- Mock verdict is exact: passes iff actual calls match the expectations.
Scenario = list of operations (tokens, all numbers hex):
  :e <count> <f> <k> (<p> <value>){k} <ret: ~ | value> <ignoreOtherParameters 0|1>     expectNCalls(count,"f<f>").withParameter("p<p>",v)...
  :c <f> <k> (<p> <value>){k} <want 0|1>        actualCall("f<f>").withParameter(...)...; want: hasReturnValue()? returnValue()
  :chk  :clr  :strict  :ign                      checkExpectations / clear / strictOrder / ignoreOtherCalls
  value ::= :b 0|1 | :i <ty 0..5> <z> | :s $bytes | :p <addr>
Observation: <fail: ~ | opindex :kind a b  nUnf (exp act)*  nFul (exp act)*>  nRets (<:n | value>)*
The scenario stops at its first failure (the reporter leaves the test); mock().clear() afterwards."""
import itertools
from vlib import tz, tb
ID = "C08"
FLAVOURS = ["asan"]
HARNESS_SRCS = ["harness/C08.cpp"]
RULE = ("expectation sets of 1-6 expectations over 1-3 function names, 0-3 parameters per expectation from a pool of 3 names x 12 typed "
        "values (bool, 6 integer types incl. the same number in two types, strings, pointers), expected counts 0-3, optional return "
        "values; the matching call sequence in every permutation (<=4 calls) or sampled permutations, parameters in shuffled order, "
        "plus one mutation at each position (drop, duplicate, extra call to a known/unknown function, wrong value, wrong/extra parameter "
        "name, missing parameter, adjacent swap); strict order on/off, ignoreOtherCalls, intermediate checkExpectations/clear; separate "
        "streams with ignoreOtherParameters, duplicate parameter names and deliberately ambiguous sets (model = implementation only). "
        "non-trivial = at least one expectation and one actual call")
ASSUMPTIONS = ["LP64 data model", "function and parameter names are distinct non-empty strings without special characters",
               "core fragment: no onObject, no output parameters, no custom types, no scopes, mock enabled, tracing off"]

VALUES = [":b 0", ":b 1", ":i 0 1", ":i 1 1", ":i 0 2", ":i 2 -1", ":i 3 ffffffffffffffff", ":i 4 -8000000000000000", ":i 5 2",
          ":s " + tb(b"a"), ":s " + tb(b"b"), ":s " + tb(b""), ":p 1000", ":p 1008", ":i 0 -1"]
RETS = [":b 1", ":i 0 -5", ":i 1 fffffffe", ":i 2 -100000000", ":i 3 8000000000000001", ":i 4 7", ":i 5 ffffffffffffffff",
        ":s " + tb(b"ret"), ":p 2000"]


def params_tok(ps):
    return "%x %s" % (len(ps), " ".join("%x %s" % (n, v) for n, v in ps)) if ps else "0"


def exp_tok(e):
    n, f, ps, ret, ign = e
    return ":e %x %x %s %s %x" % (n, f, params_tok(ps), ret if ret else "~", 1 if ign else 0)


def call_tok(c):
    f, ps, want = c
    return ":c %x %s %x" % (f, params_tok(ps), 1 if want else 0)


def join(parts):
    return " ".join(p for p in parts if p)


def gen_exps(rng, nexp, nfun, ign_p=0.0, dup_p=0.0):
    """Expectations sharing parameter-name signatures per function so that they differ in values (or are identical)."""
    sigs = {}
    exps = []
    for _ in range(nexp):
        f = rng.randrange(nfun)
        if f not in sigs or rng.random() < 0.15:
            k = rng.choice([0, 1, 1, 2, 2, 3])
            sigs[f] = rng.sample(range(3), k)
        names = list(sigs[f])
        if exps and rng.random() < 0.3:
            same = [e for e in exps if e[1] == f]
            if same:   # identical to / one value away from an earlier expectation
                ps = list(rng.choice(same)[2])
                if ps and rng.random() < 0.6:
                    i = rng.randrange(len(ps))
                    ps[i] = (ps[i][0], rng.choice(VALUES))
                exps.append((rng.choice([1, 1, 1, 2, 3, 0]), f, ps, rng.choice(RETS) if rng.random() < 0.6 else None, rng.random() < ign_p))
                continue
        ps = [(n, rng.choice(VALUES)) for n in names]
        if ps and rng.random() < dup_p:
            ps.append((ps[0][0], rng.choice(VALUES)))
        exps.append((rng.choice([1, 1, 1, 2, 3, 0]), f, ps, rng.choice(RETS) if rng.random() < 0.6 else None, rng.random() < ign_p))
    return exps


def matching_calls(rng, exps, shuffle_params=True, extra_for_ign=False):
    calls = []
    for (n, f, ps, ret, ign) in exps:
        for _ in range(n):
            q = list(ps)
            if ign and extra_for_ign and rng.random() < 0.6:
                q.append((rng.choice([3, 4]), rng.choice(VALUES)))
            if shuffle_params:
                rng.shuffle(q)
            calls.append((f, q, rng.random() < 0.5))
    return calls


MUTATIONS = ["none", "drop", "dup", "extra_known", "extra_unknown", "wrong_value", "wrong_name", "extra_param", "missing_param", "swap",
             "dup_param"]


def mutate(rng, calls, kind, pos, nfun):
    c = [(f, list(ps), w) for f, ps, w in calls]
    if kind == "none" or not c and kind not in ("extra_known", "extra_unknown"):
        return c
    pos = min(pos, max(len(c) - 1, 0))
    if kind == "drop":
        del c[pos]
    elif kind == "dup":
        c.insert(pos, c[pos])
    elif kind == "extra_known":
        c.insert(pos, (rng.randrange(nfun), [(n, rng.choice(VALUES)) for n in rng.sample(range(3), rng.randrange(3))], rng.random() < 0.5))
    elif kind == "extra_unknown":
        c.insert(pos, (7, [(0, VALUES[2])] if rng.random() < 0.5 else [], rng.random() < 0.5))
    elif kind == "wrong_value":
        f, ps, w = c[pos]
        if ps:
            i = rng.randrange(len(ps))
            ps[i] = (ps[i][0], rng.choice([v for v in VALUES if v != ps[i][1]]))
    elif kind == "wrong_name":
        f, ps, w = c[pos]
        if ps:
            i = rng.randrange(len(ps))
            ps[i] = (rng.choice([n for n in range(5) if n != ps[i][0]]), ps[i][1])
    elif kind == "extra_param":
        f, ps, w = c[pos]
        ps.insert(rng.randrange(len(ps) + 1), (rng.choice([n for n in range(5) if n not in [x[0] for x in ps]]), rng.choice(VALUES)))
    elif kind == "missing_param":
        f, ps, w = c[pos]
        if ps:
            del ps[rng.randrange(len(ps))]
    elif kind == "swap":
        if pos + 1 < len(c):
            c[pos], c[pos + 1] = c[pos + 1], c[pos]
    elif kind == "dup_param":
        f, ps, w = c[pos]
        if ps:
            ps.insert(rng.randrange(len(ps) + 1), ps[rng.randrange(len(ps))])
    return c


def scen(pre, exps, calls, tail=":chk"):
    return join(pre + [exp_tok(e) for e in exps] + [call_tok(c) for c in calls] + [tail])


def orders(rng, calls, limit):
    if len(calls) <= 4:
        seen = []
        for p in itertools.permutations(range(len(calls))):
            seen.append([calls[i] for i in p])
        rng.shuffle(seen)
        return seen[:limit]
    out = [list(calls)]
    for _ in range(limit - 1):
        q = list(calls)
        rng.shuffle(q)
        out.append(q)
    return out


def generate(tier, rng):
    out = []
    nsets = 260 if tier == "quick" else 9000
    for k in range(nsets):
        stream = k % 10
        ign_p = 0.5 if stream == 7 else 0.0
        dup_p = 0.5 if stream == 8 else 0.0
        nfun = rng.choice([1, 1, 2, 3])
        exps = gen_exps(rng, rng.choice([1, 2, 2, 3, 3, 4, 5, 6]), nfun, ign_p, dup_p)
        if stream == 9:   # deliberately ambiguous: sub-/supersets of parameters and ignoreOtherParameters on one of two overlapping expectations
            exps = [(n, f, ps[:rng.randrange(len(ps) + 1)] if rng.random() < 0.5 else ps, r, rng.random() < 0.4) for n, f, ps, r, _ in exps]
        strict = rng.random() < 0.4
        pre = []
        if strict:
            pre.append(":strict")
        ignore_calls = rng.random() < 0.15
        if ignore_calls:
            pre.append(":ign")
        base = matching_calls(rng, exps, shuffle_params=True, extra_for_ign=(ign_p > 0))
        if len(base) > 7:
            base = base[:7]
        for order in orders(rng, base, 6 if tier == "quick" else 24):
            out.append(scen(pre, exps, order))
            # one mutation at each position
            for pos in range(len(order) + 1):
                kind = rng.choice(MUTATIONS[1:])
                out.append(scen(pre, exps, mutate(rng, order, kind, pos, nfun)))
        # in-order sequence explicitly (the one strict order accepts), and every single mutation kind on it
        inorder = matching_calls(rng, exps, shuffle_params=False)
        out.append(scen(pre, exps, inorder))
        for kind in MUTATIONS[1:]:
            out.append(scen(pre, exps, mutate(rng, inorder, kind, rng.randrange(len(inorder) + 1), nfun)))
        # non-canonical shapes: expectations after calls, intermediate check, clear and a second round, strict switched on late
        if inorder:
            h = rng.randrange(len(inorder) + 1)
            out.append(join(pre + [exp_tok(e) for e in exps] + [call_tok(c) for c in inorder[:h]] + [":chk"] + [call_tok(c) for c in inorder[h:]] + [":chk"]))
            out.append(join(pre + [exp_tok(e) for e in exps] + [call_tok(c) for c in inorder[:h]] + [":clr"] + pre + [exp_tok(e) for e in exps] + [call_tok(c) for c in inorder] + [":chk"]))
            j = rng.randrange(len(exps) + 1)
            out.append(join(pre + [exp_tok(e) for e in exps[:j]] + [call_tok(c) for c in inorder[:h]] + [":strict"] + [exp_tok(e) for e in exps[j:]] + [call_tok(c) for c in inorder[h:]] + [":chk"]))
            out.append(join([exp_tok(e) for e in exps] + [call_tok(c) for c in inorder]))   # no final check
    return out


def toks(s):
    return s.split()


def nontrivial(s):
    return " :c " in " " + s and ":e " in s


def classify(s):
    t = toks(s)
    labs = ["strict" if ":strict" in t else "any-order"]
    nc = t.count(":c")
    labs.append("calls=%d" % min(nc, 8))
    labs.append("exps=%d" % t.count(":e"))
    if ":ign" in t:
        labs.append("ignoreOtherCalls")
    if ":clr" in t:
        labs.append("clear")
    if t.count(":chk") != 1 or t[-1] != ":chk":
        labs.append("non-canonical")
    return labs


def signature(s, o):
    ot = o.split()
    kind = "pass" if ot and ot[0] == "~" else (ot[1] if len(ot) > 1 else "?")
    return "%s %s" % ("strict" if ":strict" in toks(s) else "any-order", kind)


def split_ops(s):
    t = toks(s)
    ops, cur = [], []
    for x in t:
        if x in (":e", ":c", ":chk", ":clr", ":strict", ":ign") and cur:
            ops.append(cur)
            cur = []
        cur.append(x)
    if cur:
        ops.append(cur)
    return ops


def shrink(s):
    ops = split_ops(s)
    for i in range(len(ops)):
        if len(ops) > 1:
            yield " ".join(" ".join(o) for o in ops[:i] + ops[i + 1:])
    for i, o in enumerate(ops):
        if o[0] == ":e" and o[1] not in ("0", "1"):
            yield " ".join(" ".join(x) for x in ops[:i] + [[o[0], "1"] + o[2:]] + ops[i + 1:])
        if o[0] == ":c" and o[-1] == "1":
            yield " ".join(" ".join(x) for x in ops[:i] + [o[:-1] + ["0"]] + ops[i + 1:])


LEVEL_TEXT = ("Machine-checked (Coq) theorems over an executable model of the mock matching machinery (expectation flags and counters, "
              "candidate pruning, call finalisation, end-of-test verdict, failure selection), tied to the real code by a differential run "
              "of the extracted model against mock() on generated scenarios (all permutations + one mutation per position), with the "
              "extracted model-free spec evaluated on the implementation's observations.")
LEVEL_NOTE = ("Trusted: Coq kernel, extraction, harness and generators. Modelled not verified: the C++ itself. Core fragment only: no onObject, "
              "output parameters, custom comparators, scopes, enable/disable, tracing.")
TECHNIQUE = "Coq proof over hand-written executable model + extracted-model/implementation correspondence check (differential, permutations + mutations)"
READY = True
