"""C06 -- memory misuse is reported exactly: overruns, foreign frees, mismatched families.
Scenario :  <jump 0|1> <n> desc*n op*
  desc   :  :p $name (plain allocator object) | :k j (AccountingTestMemoryAllocator around object j) | :l j (MemoryLeakAllocator around object j)
  op     :  :a e al addr size | :f e al addr|~ | :r al addr|~ newaddr size | :w addr $bytes | :t 0|1
            | :A form al addr size | :F form al addr|~   (every form of operator new / delete and every malloc wrapper, see below)
            | :e 0|1|2|3 (detector disable / enable / startChecking / stopChecking) | :s 0|1 (decrease / increaseAllocationStage)
            | :m 0|1 (turnOnDefaultNotThreadSafe / turnOnThreadSafeNewDeleteOverloads called)
            | :o 0|1|2|3|4 (turnOff / turnOnDefaultNotThreadSafe / turnOnThreadSafe / saveAndDisable / restoreNewDeleteOverloads called)
  :A form:  0 new(n) 1 new(n,nothrow) 2 new(n,file,int) 3 new(n,file,size_t) 4-7 the same of new[] 8 cpputest_malloc 9 cpputest_malloc_location
            a cpputest_calloc b cpputest_strdup c cpputest_strndup
  :F form:  0 delete(p) 1 delete(p,size_t) 2 delete(p,nothrow) 3 delete(p,file,int) 4 delete(p,file,size_t) 5-9 the same of delete[]
            a cpputest_free b cpputest_free_location
  Every scenario starts in a fresh process image: the function pointers behind the entry points as their static initialisers leave them.
  e      :  0 operator new/delete, 1 new[]/delete[], 2 cpputest_malloc/free(/realloc), 3 MemoryLeakAllocator::alloc_memory/free_memory,
            4 / 5 MemoryLeakDetector::allocMemory/deallocMemory called directly with allocatNodesSeperately = false / true
  The detector starts as its constructor leaves it: period disabled, stage 0, type checking on.
  addr   :  slot*0x1200 + offset (64 slots); 0x48000+k = a stack object / a static object / a foreign heap block
Second kind (sizes at the edges, coq/C06_Edge.v):  :E <jump> <n> desc*n (:A form al addr size | :F form al addr|~ | :r al addr|~ newaddr size | :t 0|1)*
  addr = 0x10000000 + k*0x1200000 (k < 4; + offset for :F / :r), size = any size_t; observation per :A/:F/:r
  | callbacks category nfreed (addr surviving-user-bytes offset-of-the-first)* outstanding-total result-non-NULL
Observation: per :f/:r   | callbacks category nfreed (addr $bytes-seen-by-free_memory|~)* outstanding-total result-non-NULL
  category: 0 none, 1 deallocating non-allocated memory, 2 allocation/deallocation type mismatch, 3 memory corruption, 9 other text."""
import vlib
from vlib import tz, tb
ID = "C06"
FLAVOURS = ["asan"]
HARNESS_SRCS = ["harness/C06.cpp"]
PER_TIMEOUT = 30.0
CRASH_IS_VIOLATION = True
READY = True

SLOT, NSLOTS, MAXSIZE, G = 0x1200, 64, 4400, 3
PAT = [0x42, 0x41, 0x53]          # only steers the generator; the model reads the pattern from the source
FOREIGN = [NSLOTS * SLOT + k for k in range(3)]
N_NEW, N_ARR, N_MAL = b"Standard New Allocator", b"Standard New [] Allocator", b"Standard Malloc Allocator"
WRAP_NAMES = {True: b"MemoryLeakAllocator", False: b"generic"}

RULE = ("(a) guard sweep: block sizes 0..64, 255, 256, 4095 x every guard position x byte values {0, pattern-1, pattern+1, 0xFF, pattern of "
        "the neighbouring position, pattern itself, random} x release through delete/delete[]/free/realloc/string path, also overruns of 1..5 bytes "
        "starting inside the user bytes, the padding byte behind the guard, and a guard byte changed and restored; (b) every user offset of blocks "
        "up to 64 bytes written, then a paired release; (c) all 4x4 pairs of allocating/releasing entry points x allocator objects on either side "
        "(the three standard allocators, a second object with an equal name, custom names, names that are prefixes of each other, one/two "
        "accounting wrappers, MemoryLeakAllocator around plain and wrapped allocators) x type checking on/off x guard intact/changed (precedence); "
        "(d) addresses: NULL, stale (released twice, also after a reported release), interior (+1, +73 = same hash bucket, last user byte, "
        "first guard byte), never allocated slots in the same bucket, stack/static/foreign heap; (e) random histories of 3-40 operations over "
        "1-8 live blocks mixing all of it, each with a returning and with a non-returning (longjmp) failure callback; (f) detector "
        "environment: block allocated in period P at stage g, released in period Q at stage h for all 3x3 periods (each reached by every "
        "route: fresh detector, disable, enable, startChecking, stopChecking) x {delete, delete[], free, realloc, MemoryLeakAllocator, "
        "direct inline/separate record} x sizes {0,1,2,3,7,8,64,255,1000} x outcome {paired, mismatch, guard changed, stale, interior} x type "
        "checking switched between allocation and release x default/thread-safe overloads; every scenario of (a)-(e) is additionally run "
        "under a random environment (period/stage/overload switches inserted at random points; one third stay in "
        "the fresh, disabled detector); (g) entry points and overload histories: every allocating form (operator new / new[] x {plain, "
        "nothrow, file+int line, file+size_t line}, cpputest_malloc, _malloc_location, _calloc, _strdup, _strndup) x every releasing "
        "form (operator delete / delete[] x {plain, sized, nothrow, file+int line, file+size_t line}, cpputest_free, _free_location, "
        "cpputest_realloc) x 23 switch histories before the allocation (none = the static initial wiring; turnOnDefault; "
        "turnOnThreadSafe; off and back on; thread-safe then default and the reverse; saveAndDisable/restore after each of them, "
        "nested, with a switch inside the save, restore without save) x switch histories between allocation and release x type "
        "checking on/off (quick: half of the product, full for the nothrow forms; thorough: all), allocator objects of both sides "
        "varied (wrappers, equal names), thirteen blocks of thirteen forms alive at once released in rotated order, random histories "
        "with forms and switches mixed in; every scenario runs in a fresh process image, so the pointers start as their static "
        "initialisers leave them; (h) SIZES AT THE EDGES (second scenario kind ':E', four big arena slots of 18 MiB): one block of 1 MiB - 1, "
        "1 MiB, 1 MiB + 1, 1 MiB + 4 KiB, 2 MiB, 16 MiB (thorough: 14 more sizes, 4401 .. 16 MiB + 4 KiB, and random ones) through each of the "
        "12 releasing forms after an allocating form of the same family (thorough: every one), after realloc, realloc(NULL) and calloc, "
        "released through the wrong family with type checking on / off and a returning / non-returning callback, released twice -- the "
        "allocator's free_memory walks over ALL user bytes of the block it is handed (count and first offset of the bytes that still hold "
        "what the program wrote); requests of SIZE_MAX, -1, -8, -65, -75, -76, -201, SIZE_MAX/2 (thorough: 12 more, on both sides of "
        "SIZE_MAX - 75 = the room bound, 2^32 .. 2^63) through 11 allocating forms (NULL / bad_alloc, no report, the slot stays free) and "
        "through realloc of an outstanding block of 0, 1, 8, 100 bytes followed by {paired release + second release, ordinary realloc + "
        "release, wrongly paired release, a second refused realloc with another block alive, realloc(NULL, huge), type checking off}; "
        "random histories over the four slots mixing small, large and impossible sizes (at most two large blocks per scenario).  "
        "non-trivial = at least one release of a non-NULL address (edge kind: at least one allocation, realloc or such a release)")
ASSUMPTIONS = ["the releasing allocator object is alive (a destroyed allocator makes deallocMemory skip every check: static destruction order escape hatch)",
               "the underlying allocator hands out regions that do not overlap live blocks (arena slots); writes of the user program stay "
               "inside one outstanding block: user bytes, guard bytes, first padding byte",
               "family = name() of actualAllocator() (anchor 'compared by name through actualAllocator()'); allocator names contain no NUL",
               "a MemoryLeakAllocator is used the way SimpleString uses it (its alloc_memory/free_memory called directly), not installed as "
               "current allocator of new/delete/malloc (that would track every block twice)",
               "cpputest_realloc succeeds at the platform level (failures are property C05) -- except in the edge-size scenarios, where a request "
               "that cannot be granted (no room for the accounting information, or larger than any arena block) is made for NULL or for an "
               "outstanding, correctly paired block with intact guard: it must come back NULL without a report and release nothing",
               "edge-size scenarios: blocks live in four slots of 18 MiB, sizes are <= 16 MiB + 4 KiB or >= 2^32 (what lies between may or may not "
               "be granted by an allocator); sizeof(MemoryLeakDetectorNode) = 64; strdup / strndup are not used for large blocks",
               "heap poisoning compiled in (CPPUTEST_DISABLE_HEAP_POISON not defined: it removes the clause by configuration)",
               "an operator new / delete / malloc-family entry point is judged only while the new/delete overloads are installed (by the "
               "documented meaning of turnOff / turnOnDefaultNotThreadSafe / turnOnThreadSafe / saveAndDisable / restoreNewDeleteOverloads); with the "
               "overloads off nothing reaches the detector and no block is tracked",
               "save_counter does not overflow (fewer than 2^31 nested saves)",
               "LP64"]
LEVEL_TEXT = ("Machine-checked (Coq) theorems over an executable model of MemoryLeakDetector::deallocMemory / reallocMemory / checkForCorruption / "
              "matchingAllocation / validMemoryCorruptionInformation / addMemoryCorruptionInformation / invalidateMemory and the actualAllocator() "
              "chains of the wrapper allocators, on top of the C04 hash table and a byte memory: for every state, address, allocator and write "
              "sequence the reported category is exactly the property's case analysis (non-allocated iff not outstanding; else mismatch iff type "
              "checking on and the names of the actual allocators differ; else corruption iff some guard byte differs from the pattern; else "
              "nothing), user-byte writes never change it, every single guard byte change at every position to every other value is reported, "
              "NULL and paired releases are silent, delete/delete[]/free hand the allocator `size` poison bytes, a reported release still removes "
              "the record -- all of it for states with arbitrary period, allocation stage and record stamps; period_independent: two histories "
              "that differ only in enable/disable/startChecking/stopChecking/allocation-stage/overload switches (and in the period, stage "
              "and stamps they start from) yield the same reports, poison observations and totals, item for item; "
              "the plugin layer in front of the detector (eleven function pointers, the three sets of functions they can hold, the static "
              "initial wiring, turnOff / turnOnDefault / turnOnThreadSafe / saveAndDisable / restore with the save counter, the pointer each "
              "global operator new / delete form and each malloc wrapper calls, the current allocator each installed function hands the "
              "detector) as a state machine over the switch history: wiring_coherent (after EVERY list of switches each pointer holds the "
              "function of its own name, all eleven from one set, the saved pointers likewise), entry_family (hence each of the 13 "
              "allocating and 12 releasing forms reaches the detector with the allocator of the family the language gives it), "
              "form_pair_exact / form_pair_by_family (block allocated with form a after any history, released with form r after any "
              "further history: mismatch iff type checking is on and family(a) <> family(r), one callback iff reported, the record "
              "carries the allocator of family(a)), lowering_is_property_view; "
              "and run_meets_spec: the model (plugin layer + detector) satisfies the model-free oracle on every valid scenario of the "
              "extended language. Tied to the code by a "
              "differential run through every real global operator new/new[]/delete/delete[] form, cpputest_malloc/calloc/strdup/strndup/"
              "free/realloc and MemoryLeakAllocator, in a fresh process image per scenario under the real overload switches, on a private "
              "detector left in exactly the period/stage the scenario's history puts it in (fresh = disabled), with the extracted spec judging "
              "the implementation; guard pattern, guard size and poison byte are re-read from the source. "
              "Sizes at the edges (second scenario kind, same detector model with sizes as unbounded N and user bytes as runs): the room test is "
              "the translated sizeLeavesRoomForAccountingInformation (C06_room_test_is_the_source); a refused request changes nothing; a realloc "
              "that is not granted keeps the record and every later release is judged as before; every user byte of a block of any size is "
              "poison at free_memory; observed on blocks up to 16 MiB + 4 KiB through every releasing form and on requests up to SIZE_MAX.")
LEVEL_NOTE = ("Modelled, not verified: the C++ itself. Outside the model: a destroyed releasing allocator (hasBeenDestroyed skips all checks), "
              "SimpleStringCacheAllocator as a callable wrapper (only its actualAllocator() body is pinned by the translator), the locking of the thread-safe "
              "entry points (they are driven single-threaded; locking is C10), deallocAllMemoryInCurrentAllocationStage (C04), "
              "failing platform realloc (C05), a build with CPPUTEST_DISABLE_HEAP_POISON / CPPUTEST_DISABLE_MEM_CORRUPTION_CHECK. The "
              "separate/inline leak record is driven in both layouts with every allocator (it only decides whether freeMemoryLeakNode is "
              "called, which is not part of the observation). Trusted: Coq kernel, extraction, harness, generator, translator-lite.")
TECHNIQUE = "Coq proof over hand-written executable model (reusing the C04 table) + extracted-model/implementation correspondence check (differential)"


# ----------------------------------------------------------------------------- scenario text <-> structure
def parse(s):
    t = s.split()
    jump = int(t[0], 16)
    nd = int(t[1], 16)
    i = 2
    ds = []
    for _ in range(nd):
        if t[i] == ":p":
            ds.append(("p", bytes.fromhex(t[i + 1][1:])))
        else:
            ds.append((t[i][1:], int(t[i + 1], 16)))
        i += 2
    ops = []
    ar = {":a": 4, ":f": 3, ":r": 4, ":w": 2, ":t": 1, ":e": 1, ":s": 1, ":m": 1, ":A": 4, ":F": 3, ":o": 1}
    while i < len(t):
        k = ar[t[i]]
        ops.append(t[i:i + 1 + k])
        i += 1 + k
    return jump, ds, ops


def unparse(jump, ds, ops):
    out = ["%x" % jump, "%x" % len(ds)]
    for k, v in ds:
        out += [":p", tb(v)] if k == "p" else [":" + k, "%x" % v]
    for o in ops:
        out += o
    return " ".join(out)


def optp(x):
    return None if x == "~" else int(x, 16)


# ----------------------------------------------------------------------------- textbook bookkeeping (keeps generated scenarios valid, names what is expected)
class Sim:
    def __init__(self, jump, ds):
        self.jump, self.ds = jump, ds
        self.blocks = {}     # addr -> [size, family, guard bytes]
        self.tc = True
        # not consulted by expect(): only so that classify() can say where the generated cases lie
        self.period, self.stage, self.ts = 0, 0, 0
        self.stamp = {}      # addr -> (period, stage, tc) at allocation
        self.env_at_release = []
        # which overloads are installed, by the documented meaning of the switches: 0 off, 1 default, 2 thread-safe
        self.ov, self.ov_saved, self.ov_count = 1, 1, 0
        self.ov_hist = []    # switches so far (classify)
        self.form_log = []   # (allocating form | None, releasing form | "r", switches before the allocation, switches between) per release of a live block
        self.alloc_info = {}  # addr -> (form, number of switches at allocation, initial wiring still untouched)

    def actual(self, i):
        while self.ds[i][0] != "p":
            i = self.ds[i][1]
        return i

    def has_mla(self, i):
        while self.ds[i][0] != "p":
            if self.ds[i][0] == "l":
                return True
            i = self.ds[i][1]
        return False

    def fam(self, e, al):
        if e == 3:
            al = self.ds[al][1]
        return self.ds[self.actual(al)][1]

    def alloc_ok(self, e, al):
        if e == 3:
            return self.ds[al][0] == "l" and not self.has_mla(self.ds[al][1])
        return not self.has_mla(al)

    def expect(self, fam, p):
        if p is None:
            return 0
        b = self.blocks.get(p)
        if b is None:
            return 1
        if self.tc and b[1] != fam:
            return 2
        if b[2] != PAT:
            return 3
        return 0

    def alloc(self, e, al, a, n):
        assert self.alloc_ok(e, al) and a % SLOT == 0 and a < NSLOTS * SLOT and n <= MAXSIZE and a not in self.blocks, (e, al, a, n)
        self.blocks[a] = [n, self.fam(e, al), list(PAT)]
        self.stamp[a] = (self.period, self.stage, self.tc)

    def write(self, w, bs):
        ok = False
        for a, b in self.blocks.items():
            if a <= w and w + len(bs) <= a + b[0] + G + 1:
                ok = True
                for i in range(G):
                    pos = a + b[0] + i
                    if w <= pos < w + len(bs):
                        b[2][i] = bs[pos - w]
        assert ok, (w, bs)

    def free(self, e, al, p):
        assert self.alloc_ok(e, al)
        c = self.expect(self.fam(e, al), p)
        self.env_at_release.append((self.stamp.get(p) if p in self.blocks else None, (self.period, self.stage, self.tc), int(self.ov == 2)))
        if p is not None:
            self.blocks.pop(p, None)
        return c

    def realloc(self, al, p, na, n):
        assert self.alloc_ok(2, al)
        c = self.expect(self.fam(2, al), p)
        self.env_at_release.append((self.stamp.get(p) if p in self.blocks else None, (self.period, self.stage, self.tc), int(self.ov == 2)))
        if p is not None:
            self.blocks.pop(p, None)
        created = c == 0 or (c in (2, 3) and not self.jump)
        assert na % SLOT == 0 and na < NSLOTS * SLOT and n <= MAXSIZE and na not in self.blocks, (na, n)
        if created:
            self.blocks[na] = [n, self.fam(2, al), list(PAT)]
            self.stamp[na] = (self.period, self.stage, self.tc)
        return c

    def switch(self, k):
        self.ov_hist.append(k)
        if k in (0, 1, 2):
            self.ov = k
        elif k == 3:
            self.ov_count += 1
            if self.ov_count > 1:
                return
            self.ov_saved, self.ov = self.ov, 0
        else:
            self.ov_count -= 1
            if self.ov_count > 0:
                return
            self.ov = self.ov_saved

    def note_alloc(self, a, form):
        self.alloc_info[a] = (form, len(self.ov_hist))

    def note_release(self, p, form):
        if p in self.blocks and p in self.alloc_info:
            af, n = self.alloc_info[p]
            self.form_log.append((af, form, tuple(self.ov_hist[:n]), tuple(self.ov_hist[n:]), self.ov))

    def apply(self, o):
        k = o[0]
        if k == ":a":
            e = int(o[1], 16)
            assert e > 2 or self.ov != 0, "entry point used while the overloads are off"
            self.alloc(e, int(o[2], 16), int(o[3], 16), int(o[4], 16))
            self.note_alloc(int(o[3], 16), PLAIN_AFORM[e] if e <= 2 else None)
        elif k == ":A":
            f = int(o[1], 16)
            assert 0 <= f < len(AFORM_FAM) and self.ov != 0 and (f not in (11, 12) or int(o[4], 16) >= 1), o
            self.alloc(AFORM_FAM[f], int(o[2], 16), int(o[3], 16), int(o[4], 16))
            self.note_alloc(int(o[3], 16), f)
        elif k == ":f":
            e = int(o[1], 16)
            assert e > 2 or self.ov != 0, "entry point used while the overloads are off"
            self.note_release(optp(o[3]), PLAIN_RFORM[e] if e <= 2 else None)
            return self.free(e, int(o[2], 16), optp(o[3]))
        elif k == ":F":
            f = int(o[1], 16)
            assert 0 <= f < len(RFORM_FAM) and self.ov != 0, o
            self.note_release(optp(o[3]), f)
            return self.free(RFORM_FAM[f], int(o[2], 16), optp(o[3]))
        elif k == ":r":
            assert self.ov != 0, "realloc while the overloads are off"
            self.note_release(optp(o[2]), "r")
            c = self.realloc(int(o[1], 16), optp(o[2]), int(o[3], 16), int(o[4], 16))
            if int(o[3], 16) in self.blocks:
                self.note_alloc(int(o[3], 16), "r")
            return c
        elif k == ":o":
            assert 0 <= int(o[1], 16) <= 4
            self.switch(int(o[1], 16))
        elif k == ":w":
            self.write(int(o[1], 16), list(bytes.fromhex(o[2][1:])))
        elif k == ":t":
            self.tc = o[1] != "0"
        elif k == ":e":
            self.period = {0: 0, 1: 1, 2: 2, 3: 1}[int(o[1], 16)]
        elif k == ":s":
            self.stage = (self.stage + (1 if o[1] != "0" else 255)) % 256
        elif k == ":m":
            self.ts = int(o[1] != "0")
            self.switch(2 if self.ts else 1)
        return None


AFORM_FAM = [0, 0, 0, 0, 1, 1, 1, 1, 2, 2, 2, 2, 2]
RFORM_FAM = [0, 0, 0, 0, 0, 1, 1, 1, 1, 1, 2, 2]
PLAIN_AFORM, PLAIN_RFORM = [0, 4, 8], [0, 5, 10]
AFORM_NAMES = ["new", "new-nothrow", "new-file-int", "new-file-size_t", "new[]", "new[]-nothrow", "new[]-file-int", "new[]-file-size_t",
               "malloc", "malloc_location", "calloc", "strdup", "strndup"]
RFORM_NAMES = ["delete", "delete-sized", "delete-nothrow", "delete-file-int", "delete-file-size_t", "delete[]", "delete[]-sized",
               "delete[]-nothrow", "delete[]-file-int", "delete[]-file-size_t", "free", "free_location"]
SWITCH_NAMES = ["off", "default", "threadsafe", "save", "restore"]


def expected(s):
    """list of expected categories, one per release op; None if the scenario is not valid"""
    try:
        jump, ds, ops = parse(s)
        sim = Sim(jump, ds)
        return [c for c in (sim.apply(o) for o in ops) if c is not None]
    except (AssertionError, IndexError, KeyError, ValueError):
        return None


# ----------------------------------------------------------------------------- generator
# the standard object set: indices used below
DS = [("p", N_NEW), ("p", N_ARR), ("p", N_MAL),              # 0 1 2   the three families
      ("k", 0), ("k", 1), ("k", 2), ("k", 3),                # 3 4 5 6 accounting wrappers (6 = two deep around new)
      ("l", 0), ("l", 1), ("l", 2), ("l", 4),                # 7 8 9 10 MemoryLeakAllocator around new, new[], malloc, accounting(new[])
      ("p", N_NEW), ("p", b"custom"), ("p", b"Standard New"), ("k", 12),   # 11 second object named like 0; 12 custom; 13 prefix of 0 and 1; 14 accounting(custom)
      ("p", b"Standard New Allocator2"), ("p", b""), ("l", 12)]           # 15 extension of 0; 16 empty name; 17 MemoryLeakAllocator(custom)
PLAIN_LIKE = [0, 1, 2, 3, 4, 5, 6, 11, 12, 13, 14, 15, 16]    # usable as current allocator of new / new[] / malloc
MLAS = [7, 8, 9, 10, 17]
NATURAL = {0: [0, 3, 6, 11], 1: [1, 4], 2: [2, 5], 3: [7, 8, 9, 10], 4: [0, 1, 5, 12], 5: [2, 0, 4, 14]}
ENTRY_NAMES = ["new", "new[]", "malloc", "string", "direct-inline", "direct-separate"]
RELEASE_NAMES = ["delete", "delete[]", "free", "string", "direct-inline", "direct-separate"]
PERIOD_NAMES = ["disabled", "enabled", "checking"]


def A(e, al, a, n):
    return [":a", "%x" % e, "%x" % al, "%x" % a, "%x" % n]


def F(e, al, p):
    return [":f", "%x" % e, "%x" % al, "~" if p is None else "%x" % p]


def R(al, p, na, n):
    return [":r", "%x" % al, "~" if p is None else "%x" % p, "%x" % na, "%x" % n]


def Wr(a, bs):
    return [":w", "%x" % a, tb(bytes(bs))]


def T(b):
    return [":t", "1" if b else "0"]


def E(k):
    return [":e", "%x" % k]


def St(up):
    return [":s", "1" if up else "0"]


def M(ts):
    return [":m", "1" if ts else "0"]


def AF(form, al, a, n):
    return [":A", "%x" % form, "%x" % al, "%x" % a, "%x" % n]


def FF(form, al, p):
    return [":F", "%x" % form, "%x" % al, "~" if p is None else "%x" % p]


def O(k):
    return [":o", "%x" % k]


# every way of putting the detector into a period (from any period): disabled, enabled, checking
ROUTES = {0: [[], [E(0)], [E(2), E(0)], [E(1), E(0)]],
          1: [[E(1)], [E(2), E(3)], [E(3)], [E(0), E(1)]],
          2: [[E(2)], [E(1), E(2)], [E(0), E(2)], [E(3), E(2)]]}


def route(period, k, fresh):
    """ops that put the detector into `period`; the empty route (leave a fresh detector alone) only when it is fresh"""
    rs = ROUTES[period] if fresh else [r for r in ROUTES[period] if r]
    return [list(o) for o in rs[k % len(rs)]]


def slot(k):
    return k * SLOT


def mk(jump, ops):
    return unparse(jump, DS, ops)


def release_variants(e_alloc, al_alloc, a, n, k):
    """a paired release of block (a, n) allocated through (e_alloc, al_alloc): variant k"""
    if e_alloc == 2 and k % 3 == 2:
        return R(al_alloc, a, slot((a // SLOT + 1) % NSLOTS), (n + k) % 64)
    return F(e_alloc, al_alloc, a)


def gen_guard(tier, rng, out):
    sizes = list(range(0, 65)) + [255, 256, 4095] if tier == "thorough" else list(range(0, 20)) + [31, 32, 33, 63, 64, 255, 256, 4095]
    j = 0
    for n in sizes:
        for i in range(G):
            vals = [0, (PAT[i] - 1) & 255, (PAT[i] + 1) & 255, 0xFF, PAT[(i + 1) % G], PAT[(i + 2) % G], PAT[i], rng.randrange(256), PAT[i] ^ 0x20, PAT[i] ^ 0x80]
            if n > 1000:        # the model's byte memory is quadratic in the block size: a few cases only
                vals = [(PAT[i] + 1) & 255] if tier == "quick" else vals[:4]
            for v in vals:
                j += 1
                e = j % 4
                al = NATURAL[e][j % len(NATURAL[e])]
                a = slot(j % NSLOTS)
                ops = [A(e, al, a, n), Wr(a + n + i, [v]), release_variants(e, al, a, n, j)]
                if j % 5 == 0:      # the same address again: must be non-allocated, whatever was reported before
                    ops.append(F(e, al, a))
                out.append(mk(j % 7 == 0, ops))
        # overruns starting inside the user bytes, the padding byte, change-and-restore
        for k in (range(1, 6) if n <= 1000 else (2,)):
            j += 1
            e = j % 4
            al = NATURAL[e][j % len(NATURAL[e])]
            a = slot(j % NSLOTS)
            st = max(0, n - rng.randrange(0, 3))
            ln = min(n + G + 1 - st, n - st + k)
            bs = [rng.choice([0x41, 0x42, 0x53, 0, 0xCD, rng.randrange(256)]) for _ in range(ln)]
            out.append(mk(j % 2, [A(e, al, a, n), Wr(a + st, bs), release_variants(e, al, a, n, j)]))
        j += 1
        e = j % 4
        al = NATURAL[e][0]
        a = slot(j % NSLOTS)
        out.append(mk(0, [A(e, al, a, n), Wr(a + n + G, [0x99]), F(e, al, a)]))                       # padding byte only
        out.append(mk(0, [A(e, al, a, n), Wr(a + n + 1, [0x00]), Wr(a + n + 1, [PAT[1]]), F(e, al, a)]))  # changed and restored
        out.append(mk(0, [A(e, al, a, n), Wr(a + n, PAT), Wr(a + n, PAT + [7]), F(e, al, a)]))            # pattern rewritten


def gen_user(tier, rng, out):
    top = 65 if tier == "thorough" else 34
    for n in list(range(1, top)) + [255, 4095]:
        e = n % 4
        al = NATURAL[e][n % len(NATURAL[e])]
        a = slot(n % NSLOTS)
        offs = range(n) if n <= 64 else sorted(set([0, 1, 72, 73, n - 2, n - 1] + [rng.randrange(n) for _ in range(20)]))
        ops = [A(e, al, a, n)] + [Wr(a + o, [rng.choice([0x42, 0x41, 0x53, 0, 0xFF, 0xCD, rng.randrange(256)])]) for o in offs]
        ops.append(Wr(a, [rng.randrange(256) for _ in range(n)]))
        ops.append(release_variants(e, al, a, n, n))
        out.append(mk(n % 2, ops))


def gen_pairs(tier, rng, out):
    j = 0
    for e1 in range(4):
        for al1 in (PLAIN_LIKE if e1 != 3 else MLAS):
            for e2 in range(4):
                for al2 in (PLAIN_LIKE if e2 != 3 else MLAS):
                    if tier == "quick" and rng.random() < 0.55 and not (al1 in (0, 1, 2, 7, 8, 9) and al2 in (0, 1, 2, 7, 8, 9)):
                        continue
                    for tc in (1, 0):
                        for corrupt in ((0, 1, 2) if tier == "thorough" else (rng.choice([0, 0, 1, 2]),)):
                            j += 1
                            n = rng.choice([0, 0, 1, 2, 5, 8, 13, 64])
                            a = slot(j % NSLOTS)
                            ops = [A(e1, al1, a, n)]
                            if not tc:
                                ops.insert(rng.randrange(2), T(0))
                            if corrupt:
                                ops.append(Wr(a + n + (j % G), [rng.choice([0, 0xFF, PAT[(j + 1) % G]])]) if corrupt == 1 else Wr(a + max(0, n - 1), [1, 2, 3, 4][:min(4, G + 1 + min(n, 1))]))
                            ops.append(F(e2, al2, a))
                            if j % 3 == 0:
                                ops.append(F(e2, al2, a))
                            if j % 3 == 1:
                                ops.append(F(e1, al1, a))
                            out.append(mk(j % 4 == 0, ops))
                    if e2 == 2:      # the same through realloc
                        j += 1
                        n = rng.choice([0, 1, 7, 8, 30])
                        a = slot(j % NSLOTS)
                        na = rng.choice([a, slot((j + 9) % NSLOTS)])
                        ops = [A(e1, al1, a, n)] + ([Wr(a + n + j % G, [0])] if j % 3 == 0 else []) + ([T(0)] if j % 4 == 0 else [])
                        ops += [R(al2, a, na, rng.choice([0, 3, 40])), F(2, al2, na), F(e1, al1, a)]
                        out.append(mk(j % 2, ops))


def gen_addresses(tier, rng, out):
    j = 0
    for n in [0, 1, 2, 8, 72, 73, 74, 100, 146, 147, 255, 4095]:
        for e in (range(4) if n <= 1000 else (n % 4,)):
            al = NATURAL[e][0]
            base = slot((7 * n + e) % NSLOTS)
            cands = [None, base + 1, base + 73, base + n - 1, base + n, base + n + G, base + SLOT - 1, (base + SLOT) % (NSLOTS * SLOT), (base + 73 * SLOT) % (NSLOTS * SLOT)] + FOREIGN
            cands = [c for c in cands if c is None or (0 <= c and c != base)]
            for c in cands:
                for e2 in ((e, (e + 1) % 4) if tier == "thorough" else (e,)):
                    j += 1
                    al2 = NATURAL[e2][0]
                    ops = [A(e, al, base, n), F(e2, al2, c)]
                    if e2 == 2 and j % 2:
                        ops[1] = R(al2, c, slot((j + 13) % NSLOTS if slot((j + 13) % NSLOTS) != base else (j + 14) % NSLOTS), 5)
                    ops += [F(e, al, base), F(e, al, base)]         # the block itself is still fine; then stale
                    if j % 3 == 0:
                        ops += [A(e, al, base, n + 1 if n < MAXSIZE else n), F(e, al, base)]   # the address becomes outstanding again
                    out.append(mk(j % 5 == 0, ops))


def random_env_op(rng):
    r = rng.random()
    if r < 0.6:
        return E(rng.randrange(4))
    if r < 0.85:
        return St(rng.random() < 0.6)
    return M(rng.random() < 0.5)


def decorate(s, rng):
    """the same scenario under another environment: the detector put into a random period first (one third stay in the fresh,
    disabled detector), then period / stage / overload switches at random points"""
    if rng.random() < 1 / 3:
        return s
    jump, ds, ops = parse(s)
    new = route(rng.randrange(3), rng.randrange(4), True)
    if rng.random() < 0.3:
        new.append(St(rng.random() < 0.7))
    if rng.random() < 0.25:
        new.append(M(1))
    dens = rng.choice([0.0, 0.1, 0.3])
    for o in ops:
        while rng.random() < dens:
            new.append(random_env_op(rng))
        new.append(o)
    return unparse(jump, ds, new)


def gen_env(tier, rng, out):
    """allocated in period P, released in period Q: every pair, every release path, every size class, every outcome"""
    thorough = tier == "thorough"
    sizes = [0, 1, 2, 3, 7, 8, 64, 255, 1000] if thorough else [0, 1, 2, 7, 64, 255]
    kinds = [0, 1, 2, "r", 3, 4, 5]
    outcomes = ["paired", "mismatch", "guard", "stale", "interior"]
    ref = Sim(0, DS)
    j = 0
    for P in range(3):
        for Q in range(3):
            for rk in kinds:
                e2 = 2 if rk == "r" else rk
                al2 = NATURAL[e2][0]
                for n in sizes:
                    for oc in (outcomes if thorough else ["paired", rng.choice(outcomes[1:])]):
                        j += 1
                        e1, al1 = e2, al2
                        if oc == "mismatch":
                            e1 = [e for e in (0, 1, 2) if ref.fam(e, NATURAL[e][0]) != ref.fam(e2, al2)][j % 2]
                            al1 = NATURAL[e1][j % len(NATURAL[e1])]
                        a = slot(j % NSLOTS)
                        tcv = j % 4 if oc == "mismatch" else (j % 8 if j % 8 < 4 else 0)
                        ops = route(P, j // 3, True)
                        if j % 4 == 1:
                            ops.append(M(1))
                        if j % 3 == 0:
                            ops.append(St(1))
                        if tcv in (1, 3):
                            ops.append(T(0))
                        ops.append(A(e1, al1, a, n))
                        if n:
                            ops.append(Wr(a, [0x5A] * min(n, 300)))
                        if oc == "guard":
                            ops.append(Wr(a + n + j % G, [rng.choice([0, 0xFF, 0xCD, PAT[(j + 1) % G]])]))
                        # the environment moves between allocation and release
                        ops += route(Q, j // 5, False) if (P != Q or j % 2) else []
                        if j % 4 == 2:
                            ops.append(M(1))
                        if j % 5 in (1, 2):
                            ops.append(St(j % 5 == 1))
                        if tcv == 1:
                            ops.append(T(1))
                        if tcv == 2:
                            ops.append(T(0))
                        if oc == "interior":
                            bad = a + 1 if n >= 2 else rng.choice(FOREIGN)
                            ops.append(F(e2, al2, bad) if rk != "r" else R(al2, bad, slot((j + 7) % NSLOTS), 4))
                        na = slot((j + 31) % NSLOTS)
                        ops.append(F(e2, al2, a) if rk != "r" else R(al2, a, na, (n * 2) % 50))
                        if oc == "stale":
                            ops.append(F(e2, al2, a) if rk != "r" else R(al2, a, slot((j + 32) % NSLOTS), 3))
                        out.append(mk(j % 3 == 0, ops))



# switch histories that leave the overloads ON (0 off, 1 default, 2 thread-safe, 3 save, 4 restore); [] = the static initial wiring
HIST_BEFORE = [[], [1], [2], [0, 1], [0, 2], [2, 1], [1, 2], [3, 4], [1, 3, 4], [2, 3, 4], [2, 1, 3, 4], [3, 1, 4], [3, 2, 4], [3, 3, 4, 4],
               [3, 2, 3, 4, 4], [4], [4, 3, 4], [3, 1], [0, 3, 2], [2, 0, 3, 4, 1], [3, 4, 3, 4], [1, 3, 0, 4], [2, 3, 3, 1, 4, 0, 4]]
HIST_BETWEEN = [[], [2], [1], [0, 1], [0, 2], [3, 4], [3, 2], [4], [3, 3, 4, 4], [0, 3, 4, 2]]
ALL_RELEASES = list(range(12)) + ["r"]


_HIST_ON = {}


def hist_on(before, between=()):
    """do both moments (after `before`, after `before + between`) have the overloads on?"""
    key = (tuple(before), tuple(between))
    if key not in _HIST_ON:
        _HIST_ON[key] = _hist_on(before, between)
    return _HIST_ON[key]


def _hist_on(before, between):
    sim = Sim(0, DS)
    for k in before:
        sim.switch(k)
    if sim.ov == 0:
        return False
    for k in between:
        sim.switch(k)
    return sim.ov != 0


def form_case(j, af, rel, before, between, tc, n, jump, al_a=None, al_r=None, extra=None):
    """one block: allocated through form af after `before`, released through rel after `between`"""
    fa = AFORM_FAM[af]
    fr = 2 if rel == "r" else RFORM_FAM[rel]
    al_a = NATURAL[fa][0] if al_a is None else al_a
    al_r = NATURAL[fr][0] if al_r is None else al_r
    if af in (11, 12):
        n = max(n, 1)
    a = slot(j % NSLOTS)
    ops = [O(k) for k in before]
    if not tc:
        ops.insert(j % (len(ops) + 1), T(0))
    ops.append(AF(af, al_a, a, n))
    if n and j % 3 == 0:
        ops.append(Wr(a, [0x11] * min(n, 16)))
    if extra == "guard":
        ops.append(Wr(a + n + j % G, [0x00]))
    ops += [O(k) for k in between]
    if rel == "r":
        na = slot((j + 17) % NSLOTS)
        ops.append(R(al_r, a, na, (n + 3) % 40))
        ops.append(FF(10 + j % 2, al_r, na))          # whatever realloc made is released by free
    else:
        ops.append(FF(rel, al_r, a))
    if j % 4 == 0:
        ops.append(FF(RELEASE_OF_FAM[fa][j % len(RELEASE_OF_FAM[fa])], al_a, a))   # stale by now: non-allocated, through another form
    return mk(jump, ops)


RELEASE_OF_FAM = {0: [0, 1, 2, 3, 4], 1: [5, 6, 7, 8, 9], 2: [10, 11]}


def gen_forms(tier, rng, out):
    """every allocating form x every releasing form (and realloc) x every switch history before the allocation (x histories between the
    two), type checking on/off, under the initial static wiring and everything the five switches can make of it"""
    thorough = tier == "thorough"
    j = 0
    sizes = [0, 1, 2, 5, 8, 20, 64]
    for hi, before in enumerate(HIST_BEFORE):
        for af in range(13):
            for ri, rel in enumerate(ALL_RELEASES):
                # quick: half of the product, laid out so that every (form, form) pair meets 11-12 of the histories, every (form, history)
                # pair 6-7 forms of the other side; the nothrow forms (the rarely used ones) keep the full product
                if not thorough and (hi + af + ri) % 2 and af not in (1, 5) and rel not in (2, 7):
                    continue
                betweens = [b for b in HIST_BETWEEN if hist_on(before, b)]
                if not thorough:
                    betweens = [betweens[(hi + af + ri) % len(betweens)]]
                else:
                    betweens = [betweens[(hi + af + ri + d) % len(betweens)] for d in (0, 3, 7)]
                for between in betweens:
                    for tc in ((1, 0) if thorough else (0 if (j % 5 == 4) else 1,)):
                        j += 1
                        extra = "guard" if j % 11 == 0 else None
                        out.append(form_case(j, af, rel, before, between, tc, sizes[j % len(sizes)], j % 6 == 0, extra=extra))
    # the allocator objects on either side: wrappers, second objects, custom names -- through the rarely used forms
    for af in (1, 3, 5, 6, 9, 10, 11, 12):
        for rel in (1, 2, 4, 6, 7, 8, 11, "r"):
            for before in ([], [2, 1], [1, 3, 4], [0, 2]):
                j += 1
                fa, fr = AFORM_FAM[af], (2 if rel == "r" else RFORM_FAM[rel])
                al_a = rng.choice(PLAIN_LIKE if j % 2 else NATURAL[fa])
                al_r = rng.choice(PLAIN_LIKE if j % 3 else NATURAL[fr])
                out.append(form_case(j, af, rel, before, HIST_BETWEEN[j % 5] if hist_on(before, HIST_BETWEEN[j % 5]) else [], j % 4 != 0, rng.choice(sizes), j % 5 == 0, al_a, al_r))
    # several blocks alive at once, one per allocating form, released in another order through rotating forms; switches in between
    for rot in range(13 if thorough else 4):
        for before in (HIST_BEFORE if thorough else [HIST_BEFORE[(rot * 5 + 1) % len(HIST_BEFORE)], HIST_BEFORE[(rot * 7 + 5) % len(HIST_BEFORE)]]):
            j += 1
            ops = [O(k) for k in before]
            blocks = []
            for af in range(13):
                a = slot((j + af * 3) % NSLOTS)
                n = max(1, (af * 7 + rot) % 30)
                ops.append(AF(af, NATURAL[AFORM_FAM[af]][0], a, n))
                blocks.append((af, a))
                if af % 4 == rot % 4:
                    sw = HIST_BETWEEN[(af + rot) % len(HIST_BETWEEN)]
                    sim = Sim(0, DS)
                    for o in ops:
                        if o[0] == ":o":
                            sim.switch(int(o[1], 16))
                    for k in sw:
                        sim.switch(k)
                    if sim.ov != 0:
                        ops += [O(k) for k in sw]
            order = blocks[rot:] + blocks[:rot]
            for i, (af, a) in enumerate(order):
                rel = ALL_RELEASES[(i * 5 + rot) % 12]
                ops.append(FF(rel, NATURAL[RFORM_FAM[rel]][0], a))
            out.append(mk(j % 2, ops))


def gen_random(tier, rng, out, count):
    for _ in range(count):
        jump = rng.random() < 0.4
        sim = Sim(jump, DS)
        ops = []
        info = {}      # addr -> (e, al)
        dead = []
        envy = rng.choice([0.0, 0.08, 0.2])       # how often the environment moves
        switchy = rng.choice([0.0, 0.1, 0.25])    # how often the overloads are switched
        formy = rng.choice([0.0, 0.5, 1.0])       # how often a form other than the plain one is used
        if rng.random() < 2 / 3:
            for o in route(rng.randrange(3), rng.randrange(4), True):
                sim.apply(o)
                ops.append(o)
        for _ in range(rng.randrange(3, 41)):
            live = list(sim.blocks.keys())
            if rng.random() < envy:
                o = random_env_op(rng)
                sim.apply(o)
                ops.append(o)
            if rng.random() < switchy:
                o = O(rng.choice([0, 1, 2, 3, 4, 3, 4, 1, 2]))
                sim.apply(o)
                ops.append(o)
                if sim.ov == 0 and rng.random() < 0.7:      # mostly come back on soon (the operations in between are direct ones)
                    for _ in range(rng.randrange(0, 3)):
                        if sim.ov == 0:
                            o = O(rng.choice([1, 2, 4, 3]))
                            sim.apply(o)
                            ops.append(o)
            r = rng.random()
            o = None
            if r < 0.28 or not live:
                if len(live) < 8:
                    e = rng.randrange(6)
                    al = rng.choice(NATURAL[e] if rng.random() < 0.7 else (PLAIN_LIKE if e != 3 else MLAS))
                    free_slots = [k for k in range(NSLOTS) if slot(k) not in sim.blocks]
                    a = slot(rng.choice(free_slots)) if rng.random() < 0.6 or not dead else rng.choice(dead)
                    if a in sim.blocks:
                        continue
                    n = rng.choice([0, 1, 2, 3, 4, 7, 8, 9, 16, 33, 64, 80, rng.randrange(0, 200)])
                    o = A(e, al, a, n)
                    if e <= 2 and rng.random() < formy:
                        o = AF(rng.choice([f for f in range(13) if AFORM_FAM[f] == e]), al, a, max(n, 1))
                    info[a] = (e, al)
            elif r < 0.55:
                a = rng.choice(live)
                n = sim.blocks[a][0]
                kind = rng.random()
                if kind < 0.45 and n > 0:
                    st = rng.randrange(n)
                    o = Wr(a + st, [rng.randrange(256) for _ in range(rng.randrange(1, min(n - st, 8) + 1))])
                elif kind < 0.8:
                    i = rng.randrange(G)
                    o = Wr(a + n + i, [rng.choice([PAT[i], PAT[i], 0, 0xFF, PAT[(i + 1) % G], rng.randrange(256)])])
                else:
                    st = rng.randrange(0, n + G + 1)
                    o = Wr(a + st, [rng.choice(PAT + [0, 0xCD]) for _ in range(rng.randrange(1, n + G + 1 - st + 1))])
            elif r < 0.62:
                o = T(rng.random() < 0.5)
            elif r < 0.9:
                kind = rng.random()
                if kind < 0.6:
                    a = rng.choice(live)
                    e, al = info[a]
                    if rng.random() < 0.3:
                        e = rng.randrange(6)
                        al = rng.choice(NATURAL[e] if rng.random() < 0.5 else (PLAIN_LIKE if e != 3 else MLAS))
                    p = a
                else:
                    e = rng.randrange(6)
                    al = rng.choice(NATURAL[e])
                    base = rng.choice(live)
                    p = rng.choice([None, base + 1, base + 73, base + sim.blocks[base][0], rng.choice(FOREIGN), slot(rng.randrange(NSLOTS))] + dead[-3:])
                if e == 2 and rng.random() < 0.35:
                    free_slots = [k for k in range(NSLOTS) if slot(k) not in sim.blocks or slot(k) == p]
                    na = slot(rng.choice(free_slots))
                    o = R(al, p, na, rng.choice([0, 1, 5, 8, 40, 100]))
                    info[na] = (2, al)
                else:
                    o = F(e, al, p)
                    if e <= 2 and rng.random() < formy:
                        o = FF(rng.choice([f for f in range(12) if RFORM_FAM[f] == e]), al, p)
                if p in sim.blocks:
                    dead.append(p)
            if o is None:
                continue
            try:
                sim.apply(o)
            except AssertionError:
                continue
            ops.append(o)
        # release what is left, pairwise
        if sim.ov == 0:
            o = O(rng.choice([1, 2]))
            sim.apply(o)
            ops.append(o)
        for a in list(sim.blocks.keys()):
            e, al = info[a]
            o = F(e, al, a)
            if e <= 2 and rng.random() < formy:
                o = FF(rng.choice([f for f in range(12) if RFORM_FAM[f] == e]), al, a)
            sim.apply(o)
            ops.append(o)
        out.append(unparse(int(jump), DS, ops))


# ============================================================================= second scenario kind: sizes at the edges (coq/C06_Edge.v)
# :E <jump> <n> desc*n (:A form al addr size | :F form al addr|~ | :r al addr|~ newaddr size | :t 0|1)*
BIGBASE, BIGSLOT, NBIG, BIGMAX = 0x10000000, 0x1200000, 4, 0x1001000
SIZE_MAX = 2 ** 64 - 1
ROOM = SIZE_MAX - (G + 8 + 64)            # only steers the generator: the model takes the bound from its own definition, tied to the source
MIB = 1 << 20
BIG_SIZES = [MIB - 1, MIB, MIB + 1, MIB + 4096, 2 * MIB, 16 * MIB]
MORE_BIG_SIZES = [65535, 65536, 65537, 4401, 4608, MIB // 2 + 3, 2 * MIB - 1, 2 * MIB + 1, 3 * MIB + 7, 4 * MIB, 8 * MIB + 1, 16 * MIB - 1, 16 * MIB + 1, BIGMAX]
TOP_SIZES = [SIZE_MAX, SIZE_MAX - 1, SIZE_MAX - 8, SIZE_MAX - 65, SIZE_MAX - 75, SIZE_MAX - 76, SIZE_MAX - 201, SIZE_MAX // 2]
MORE_TOP_SIZES = [SIZE_MAX - 74, SIZE_MAX - 7, SIZE_MAX - 64, SIZE_MAX - 77, SIZE_MAX - 4096, SIZE_MAX // 2 + 1, 2 ** 63 - 1, SIZE_MAX // 4, 2 ** 32, 2 ** 32 + 1, 2 ** 40, 2 ** 48 + 5]
E_AFORMS = list(range(11))                # strdup / strndup cannot make a block of a chosen huge size


def is_edge(s):
    return s.startswith(":E ")


def bslot(k):
    return BIGBASE + k * BIGSLOT


def eparse(s):
    t = s.split()
    assert t[0] == ":E"
    jump = int(t[1], 16)
    nd = int(t[2], 16)
    i = 3
    ds = []
    for _ in range(nd):
        if t[i] == ":p":
            ds.append(("p", bytes.fromhex(t[i + 1][1:])))
        else:
            ds.append((t[i][1:], int(t[i + 1], 16)))
        i += 2
    ops = []
    ar = {":A": 4, ":F": 3, ":r": 4, ":t": 1}
    while i < len(t):
        k = ar[t[i]]
        ops.append(t[i:i + 1 + k])
        i += 1 + k
    return jump, ds, ops


def eunparse(jump, ds, ops):
    return ":E " + unparse(jump, ds, ops)


def emk(jump, ops):
    return eunparse(jump, DS, ops)


def granted(n):
    return n <= ROOM and n <= BIGMAX


class ESim(Sim):
    """textbook bookkeeping of the edge kind: which blocks are outstanding, what each item is expected to show"""

    def esize_ok(self, n):
        return 0 <= n <= SIZE_MAX and (n <= BIGMAX or n >= 2 ** 32)

    def eaddr_ok(self, a):
        return BIGBASE <= a < BIGBASE + NBIG * BIGSLOT and (a - BIGBASE) % BIGSLOT == 0

    def eptr_ok(self, p):
        return p is None or BIGBASE <= p < BIGBASE + NBIG * BIGSLOT

    def eapply(self, o):
        """-> (category, result non-NULL | None)"""
        k = o[0]
        if k == ":A":
            f, al, a, n = int(o[1], 16), int(o[2], 16), int(o[3], 16), int(o[4], 16)
            assert f in E_AFORMS and self.alloc_ok(AFORM_FAM[f], al) and self.eaddr_ok(a) and self.esize_ok(n) and a not in self.blocks, o
            if granted(n):
                self.blocks[a] = [n, self.fam(AFORM_FAM[f], al), list(PAT)]
            return (0, granted(n))
        if k == ":F":
            f, al, p = int(o[1], 16), int(o[2], 16), optp(o[3])
            assert 0 <= f < len(RFORM_FAM) and self.alloc_ok(RFORM_FAM[f], al) and self.eptr_ok(p), o
            c = self.expect(self.fam(RFORM_FAM[f], al), p)
            if p is not None:
                self.blocks.pop(p, None)
            return (c, False)
        if k == ":r":
            al, p, na, n = int(o[1], 16), optp(o[2]), int(o[3], 16), int(o[4], 16)
            assert self.alloc_ok(2, al) and self.eptr_ok(p) and self.eaddr_ok(na) and self.esize_ok(n), o
            c = self.expect(self.fam(2, al), p)
            rest = dict(self.blocks)
            if p is not None:
                rest.pop(p, None)
            assert na not in rest, o
            if not granted(n):
                assert c == 0, "a request that cannot be granted is made for NULL or a correctly paired outstanding block"
                return (0, False)
            self.blocks = rest
            created = c == 0 or (c in (2, 3) and not self.jump)
            if created:
                self.blocks[na] = [n, self.fam(2, al), list(PAT)]
            return (c, created)
        if k == ":t":
            self.tc = o[1] != "0"
            return None
        raise ValueError(k)


def eexpected(s):
    try:
        jump, ds, ops = eparse(s)
        sim = ESim(jump, ds)
        return [c for c in (sim.eapply(o) for o in ops) if c is not None]
    except (AssertionError, IndexError, KeyError, ValueError):
        return None


AFORMS_OF_FAM = {0: [0, 1, 2, 3], 1: [4, 5, 6, 7], 2: [8, 9, 10]}


def gen_edge(tier, rng, out):
    thorough = tier != "quick"
    sizes = BIG_SIZES + (MORE_BIG_SIZES if thorough else [])
    n = 0
    # (1) one large block through every releasing form, allocated through a form of the same family (rotating), also after realloc
    #     and realloc(NULL); every 5th with the failure callback not returning; then the stale second release
    for si, size in enumerate(sizes):
        for rf in range(12):
            fam = RFORM_FAM[rf]
            afs = AFORMS_OF_FAM[fam]
            for af in (afs if thorough else [afs[(si + rf) % len(afs)]]):
                k = n % NBIG
                n += 1
                ops = [AF(af, fam, bslot(k), size), FF(rf, fam, bslot(k))]
                if n % 3 == 0:
                    ops.append(FF(rf, fam, bslot(k)))
                out.append(emk(int(n % 5 == 0), ops))
        for how in range(3):
            k = n % NBIG
            n += 1
            k2 = (k + 1) % NBIG
            if how == 0:
                ops = [AF(8, 2, bslot(k), 3), R(2, bslot(k), bslot(k2), size), FF(10, 2, bslot(k2))]
            elif how == 1:
                ops = [R(2, None, bslot(k2), size), FF(11, 2, bslot(k2))]
            else:
                ops = [AF(10, 2, bslot(k), size), R(2, bslot(k), bslot(k), 8), FF(10, 2, bslot(k))]
            out.append(emk(0, ops))
    # (2) a large block released through the wrong family (type checking on / off), through a wrapper, with the callback returning or not:
    #     the block still comes back poisoned when the callback returns
    for si, size in enumerate(sizes if thorough else sizes[2:5]):
        for rf in range(12):
            for tc in (1, 0):
                fam = (RFORM_FAM[rf] + 1 + si % 2) % 3
                af = AFORMS_OF_FAM[fam][(si + rf) % len(AFORMS_OF_FAM[fam])]
                al_a = [fam, fam + 3][rf % 2]
                k = n % NBIG
                n += 1
                ops = ([T(0)] if not tc else []) + [AF(af, al_a, bslot(k), size), FF(rf, RFORM_FAM[rf], bslot(k)), FF(rf, RFORM_FAM[rf], bslot(k))]
                out.append(emk(int(n % 2), ops))
    # (3) requests at the top of size_t: refused, no report, nothing changes; the slot is free for the next request
    tops = TOP_SIZES + (MORE_TOP_SIZES if thorough else [])
    olds = [0, 1, 8, 100] + ([4400, MIB + 1] if thorough else [])
    for ti, top in enumerate(tops):
        for af in E_AFORMS:
            fam = AFORM_FAM[af]
            k = n % NBIG
            n += 1
            ops = [AF(af, fam, bslot(k), top), AF(af, fam, bslot(k), olds[n % len(olds)]), FF(PLAIN_RFORM[fam], fam, bslot(k))]
            out.append(emk(int(n % 4 == 0), ops))
        # realloc of an outstanding block to a size that cannot exist: NULL, no report, the block stays outstanding --
        # its paired release is silent, a second one is not; a wrongly paired one is a mismatch; an ordinary realloc still works
        for oi, old in enumerate(olds):
            for how in range(6):
                if not thorough and (ti + oi + how) % 2 and top not in (SIZE_MAX, SIZE_MAX - 75, SIZE_MAX - 76):
                    continue
                k = n % NBIG
                n += 1
                k2, k3 = (k + 1) % NBIG, (k + 2) % NBIG
                al = [2, 5][n % 2]
                pre = [AF([8, 9, 10][n % 3], 2, bslot(k), old), R(al, bslot(k), bslot(k2), top)]
                if how == 0:
                    ops = pre + [FF(10, 2, bslot(k)), FF(10, 2, bslot(k))]
                elif how == 1:
                    ops = pre + [R(2, bslot(k), bslot(k2), 2 * old + 1), FF(11, 2, bslot(k2))]
                elif how == 2:
                    ops = pre + [FF([0, 5][n % 2], [0, 1][n % 2], bslot(k)), FF(10, 2, bslot(k))]
                elif how == 3:
                    ops = [AF(4, 1, bslot(k3), 7)] + pre + [R(2, bslot(k), bslot(k2), tops[(ti + 1) % len(tops)]), FF(10, 2, bslot(k)), FF(5, 1, bslot(k3))]
                elif how == 4:
                    ops = [R(2, None, bslot(k), top), R(2, None, bslot(k), old), R(2, bslot(k), bslot(k2), top), FF(10, 2, bslot(k))]
                else:
                    ops = [T(0)] + pre + [FF(0, 0, bslot(k)), FF(0, 0, bslot(k))]
                out.append(emk(int(n % 3 == 0), ops))
    # (4) random histories over the four big slots: small, large and impossible sizes mixed, at most two large blocks per scenario
    count = 150 if not thorough else 6000
    for _ in range(count):
        sim = ESim(rng.random() < 0.3, DS)
        ops = []
        large = 0
        for _ in range(rng.randint(3, 14)):
            live = sorted(sim.blocks)
            free_slots = [bslot(k) for k in range(NBIG) if bslot(k) not in sim.blocks]
            r = rng.random()

            def pick_size():
                nonlocal large
                q = rng.random()
                if q < 0.3:
                    return rng.choice(TOP_SIZES + MORE_TOP_SIZES)
                if q < 0.5 and large < 2:
                    large += 1
                    return rng.choice(BIG_SIZES + MORE_BIG_SIZES) if rng.random() < 0.7 else rng.randint(4401, BIGMAX)
                return rng.choice([0, 1, 2, 7, 8, 64, 255, 4096, 4400])
            o = None
            if r < 0.3 and free_slots:
                af = rng.choice(E_AFORMS)
                al = rng.choice([AFORM_FAM[af], AFORM_FAM[af] + 3])
                o = AF(af, al, rng.choice(free_slots), pick_size())
            elif r < 0.6:
                rf = rng.randrange(12)
                q = rng.random()
                if live and q < 0.7:
                    a = rng.choice(live)
                    if rng.random() < 0.7:
                        fam_names = [N_NEW, N_ARR, N_MAL]
                        want = fam_names.index(sim.blocks[a][1]) if sim.blocks[a][1] in fam_names else RFORM_FAM[rf]
                        rf = rng.choice(RELEASE_OF_FAM[want])
                    p = a
                elif q < 0.8:
                    p = None
                elif q < 0.9:
                    p = bslot(rng.randrange(NBIG))
                else:
                    p = bslot(rng.randrange(NBIG)) + rng.choice([1, 8, 4096, MIB])
                o = FF(rf, RFORM_FAM[rf], p)
            elif r < 0.92:
                size = pick_size()
                p = rng.choice(live + [None]) if live else None
                rest = [bslot(k) for k in range(NBIG) if bslot(k) not in sim.blocks or bslot(k) == p]
                if rest:
                    o = R(rng.choice([2, 5]), p, rng.choice(rest), size)
            else:
                o = T(rng.random() < 0.5)
            if o is None:
                continue
            trial = ESim(sim.jump, DS)
            trial.blocks = {a: [b[0], b[1], list(b[2])] for a, b in sim.blocks.items()}
            trial.tc = sim.tc
            try:
                trial.eapply(o)
            except (AssertionError, IndexError, KeyError, ValueError):
                continue
            sim.eapply(o)
            ops.append(o)
        if ops:
            out.append(emk(int(sim.jump), ops))


def eclassify(s):
    jump, ds, ops = eparse(s)
    lab = set(["kind:edge-sizes", "callback:" + ("longjmp" if jump else "returns")])
    ex = eexpected(s) or []
    items = [o for o in ops if o[0] != ":t"]
    sim_blocks = {}
    for o, (c, res) in zip(items, ex):
        if o[0] == ":A":
            n = int(o[4], 16)
            lab.add("edge-alloc:%s:%s" % (AFORM_NAMES[int(o[1], 16)], size_class(n)))
            if res:
                sim_blocks[int(o[3], 16)] = (n, AFORM_NAMES[int(o[1], 16)])
        elif o[0] == ":F":
            p = optp(o[3])
            lab.add("expect:" + {0: "silent", 1: "non-allocated", 2: "mismatch", 3: "corruption"}[c])
            if p in sim_blocks:
                lab.add("edge-release:%s:%s" % (RFORM_NAMES[int(o[1], 16)], size_class(sim_blocks[p][0])))
                if sim_blocks[p][0] > MAXSIZE:
                    lab.add("edge-release-large:%d-bytes:%s" % (sim_blocks[p][0], RFORM_NAMES[int(o[1], 16)]))
                sim_blocks.pop(p)
            elif p is not None:
                lab.add("edge-release:not-outstanding")
        elif o[0] == ":r":
            n, p = int(o[4], 16), optp(o[2])
            lab.add("edge-realloc:%s:%s:%s" % ("NULL" if p is None else "outstanding" if p in sim_blocks else "not-outstanding", size_class(n),
                                                "granted" if res else "refused-or-stopped"))
            if not granted(n):
                lab.add("edge-refused-realloc:size_max-%d" % (SIZE_MAX - n) if SIZE_MAX - n <= 4096 else "edge-refused-realloc:huge")
            if res or c != 0:
                sim_blocks.pop(p, None)
            if res:
                sim_blocks[int(o[3], 16)] = (n, "realloc")
    return sorted(lab)


def size_class(n):
    if n > ROOM:
        return "no-room(size_max-%d)" % (SIZE_MAX - n) if SIZE_MAX - n <= 80 else "no-room"
    if n > BIGMAX:
        return "room-but-no-memory" + ("(size_max-%d)" % (SIZE_MAX - n) if SIZE_MAX - n <= 80 else "")
    if n > MAXSIZE:
        return ">1MiB" if n > MIB else "1MiB" if n == MIB else "4401..1MiB"
    return "small"


def eobs_items(obs):
    t = obs.split()
    i, items = 0, []
    try:
        while i < len(t):
            assert t[i] == "|"
            calls, cat, nf = int(t[i + 1], 16), int(t[i + 2], 16), int(t[i + 3], 16)
            i += 4
            fr = []
            for _ in range(nf):
                fr.append((int(t[i], 16), int(t[i + 1], 16), int(t[i + 2], 16)))
                i += 3
            items.append((calls, cat, fr, int(t[i], 16), t[i + 1]))
            i += 2
    except (AssertionError, IndexError, ValueError):
        return None
    return items


def esignature(s, obs):
    if obs.startswith("!"):
        return "edge:crash:" + obs.split("@")[0].strip().replace(" ", "_")[:60]
    ex, it = eexpected(s), eobs_items(obs)
    if ex is None or it is None or len(ex) != len(it):
        return "edge:shape"
    _, _, ops = eparse(s)
    items = [o for o in ops if o[0] != ":t"]
    for o, (c, res), x in zip(items, ex, it):
        how = "realloc" if o[0] == ":r" else AFORM_NAMES[int(o[1], 16)] if o[0] == ":A" else RFORM_NAMES[int(o[1], 16)]
        if x[1] != c or x[0] != (1 if c else 0):
            return "edge:category:%s:expected=%d:got=%d/%d" % (how, c, x[1], x[0])
        if any(left for _, left, _ in x[2]):
            return "edge:poison:" + how
        if o[0] != ":F" and (x[4] == "1") != bool(res):
            return "edge:result:" + how
    return "edge:total-or-other"


def eshrink(s):
    jump, ds, ops = eparse(s)
    c = prune_descs(jump, ds, ops)
    if c:
        yield ":E " + c
    for i in range(len(ops)):
        yield eunparse(jump, ds, ops[:i] + ops[i + 1:])
    if jump:
        yield eunparse(0, ds, ops)
    for i, o in enumerate(ops):
        if o[0] == ":A" and int(o[1], 16) not in PLAIN_AFORM:
            yield eunparse(jump, ds, ops[:i] + [[":A", "%x" % PLAIN_AFORM[AFORM_FAM[int(o[1], 16)]]] + o[2:]] + ops[i + 1:])
        if o[0] == ":F" and int(o[1], 16) not in PLAIN_RFORM:
            yield eunparse(jump, ds, ops[:i] + [[":F", "%x" % PLAIN_RFORM[RFORM_FAM[int(o[1], 16)]]] + o[2:]] + ops[i + 1:])
    # sizes towards the nearest landmark below: the smallest size that still shows the failure is the interesting one
    marks = [0, 1, 8, MAXSIZE, 65536, MIB - 1, MIB, MIB + 1, 2 * MIB, BIGMAX, 2 ** 32, SIZE_MAX // 2, ROOM - 1, ROOM, ROOM + 1, SIZE_MAX - 1]
    for i, o in enumerate(ops):
        if o[0] in (":A", ":r"):
            n = int(o[4], 16)
            for m in marks:
                if m < n:
                    yield eunparse(jump, ds, ops[:i] + [o[:4] + ["%x" % m]] + ops[i + 1:])
            if n > 1 and n - 1 not in marks:
                yield eunparse(jump, ds, ops[:i] + [o[:4] + ["%x" % (n - 1)]] + ops[i + 1:])
    for i, o in enumerate(ops):
        k = 2 if o[0] in (":A", ":F") else 1 if o[0] == ":r" else None
        if k is not None:
            al = int(o[k], 16)
            if al < len(ds) and ds[al][0] == "k":
                o2 = list(o)
                o2[k] = "%x" % ds[al][1]
                yield eunparse(jump, ds, ops[:i] + [o2] + ops[i + 1:])


def generate(tier, rng):
    out = []
    gen_guard(tier, rng, out)
    gen_user(tier, rng, out)
    gen_pairs(tier, rng, out)
    gen_addresses(tier, rng, out)
    out[:] = [decorate(s, rng) for s in out]
    gen_env(tier, rng, out)
    gen_forms(tier, rng, out)
    gen_random(tier, rng, out, 400 if tier == "quick" else 50000)
    gen_edge(tier, rng, out)
    bad = [s for s in out if (eexpected(s) if is_edge(s) else expected(s)) is None]
    assert not bad, "generator produced an invalid scenario: " + bad[0]
    return out


def nontrivial(s):
    if is_edge(s):
        _, _, ops = eparse(s)
        return any(o[0] in (":A", ":r") or (o[0] == ":F" and o[3] != "~") for o in ops)
    _, _, ops = parse(s)
    return any(o[0] in (":f", ":F", ":r") and (o[3] if o[0] != ":r" else o[2]) != "~" for o in ops)


def classify(s):
    if is_edge(s):
        return eclassify(s)
    jump, ds, ops = parse(s)
    lab = set(["callback:" + ("longjmp" if jump else "returns")])
    ex = expected(s) or []
    for c in ex:
        lab.add("expect:" + {0: "silent", 1: "non-allocated", 2: "mismatch", 3: "corruption"}[c])
    try:
        sim = Sim(jump, ds)
        for o in ops:
            sim.apply(o)
        for st, now, ts in sim.env_at_release:
            lab.add("release-in-period:" + PERIOD_NAMES[now[0]])
            if ts:
                lab.add("overloads:thread-safe")
            if st is not None:
                lab.add("alloc>release period:%s>%s" % (PERIOD_NAMES[st[0]], PERIOD_NAMES[now[0]]))
                if st[1] != now[1]:
                    lab.add("stage:changed-between-alloc-and-release")
                if st[2] != now[2]:
                    lab.add("typecheck:switched-between-alloc-and-release")
        for af, rf, before, between, flav in sim.form_log:
            if af is not None and rf is not None:
                an = "realloc" if af == "r" else AFORM_NAMES[af]
                rn = "realloc" if rf == "r" else RFORM_NAMES[rf]
                lab.add("form-pair:%s>%s" % (an, rn))
                lab.add("alloc-form:%s after [%s]" % (an, ",".join(SWITCH_NAMES[k] for k in before[-4:]) if before else "initial wiring"))
                lab.add("release-form:%s under %s" % (rn, SWITCH_NAMES[flav]))
            lab.add("switches-before-alloc:" + ("none(initial wiring)" if not before else ",".join(SWITCH_NAMES[k] for k in before[-5:])))
            if between:
                lab.add("switches-between-alloc-and-release:" + ",".join(SWITCH_NAMES[k] for k in between[-5:]))
    except (AssertionError, IndexError, KeyError, ValueError):
        pass
    for o in ops:
        if o[0] == ":A":
            lab.add("alloc:" + ENTRY_NAMES[AFORM_FAM[int(o[1], 16)]])
            lab.add("size:" + ("0" if int(o[4], 16) == 0 else "1-8" if int(o[4], 16) <= 8 else "9-64" if int(o[4], 16) <= 64 else ">64"))
        elif o[0] == ":F":
            lab.add("release:" + RELEASE_NAMES[RFORM_FAM[int(o[1], 16)]])
            if o[3] == "~":
                lab.add("release:NULL")
        elif o[0] == ":o":
            lab.add("switch:" + SWITCH_NAMES[int(o[1], 16)])
        if o[0] == ":a":
            lab.add("alloc:" + ENTRY_NAMES[int(o[1], 16)])
            lab.add("size:" + ("0" if int(o[4], 16) == 0 else "1-8" if int(o[4], 16) <= 8 else "9-64" if int(o[4], 16) <= 64 else ">64"))
        elif o[0] == ":f":
            lab.add("release:" + RELEASE_NAMES[int(o[1], 16)])
            if o[3] == "~":
                lab.add("release:NULL")
        elif o[0] == ":r":
            lab.add("release:realloc")
        elif o[0] == ":t":
            lab.add("typecheck:" + ("on" if o[1] != "0" else "off"))
        if o[0] in (":a", ":f", ":r", ":A", ":F"):
            al = int(o[2] if o[0] != ":r" else o[1], 16)
            if ds[al][0] != "p":
                lab.add("wrapper:" + {"k": "accounting", "l": "leakallocator"}[ds[al][0]])
    return sorted(lab)


def obs_items(obs):
    t = obs.split()
    i, items = 0, []
    try:
        while i < len(t):
            assert t[i] == "|"
            calls, cat, nf = int(t[i + 1], 16), int(t[i + 2], 16), int(t[i + 3], 16)
            i += 4
            fr = []
            for _ in range(nf):
                fr.append((int(t[i], 16), t[i + 1]))
                i += 2
            items.append((calls, cat, fr, int(t[i], 16), t[i + 1]))
            i += 2
    except (AssertionError, IndexError, ValueError):
        return None
    return items


def signature(s, obs):
    if is_edge(s):
        return esignature(s, obs)
    if obs.startswith("!"):
        return "crash:" + obs.split("@")[0].strip().replace(" ", "_")[:60]
    ex, it = expected(s), obs_items(obs)
    if ex is None or it is None or len(ex) != len(it):
        return "shape"
    _, _, ops = parse(s)
    rel = [o for o in ops if o[0] in (":f", ":F", ":r")]
    for o, c, x in zip(rel, ex, it):
        how = "realloc" if o[0] == ":r" else RELEASE_NAMES[int(o[1], 16)] if o[0] == ":f" else RFORM_NAMES[int(o[1], 16)]
        if x[1] != c or x[0] != (1 if c else 0):
            return "category:%s:expected=%d:got=%d/%d" % (how, c, x[1], x[0])
        if any(b != "~" and set(b[1:][k:k + 2] for k in range(0, len(b) - 1, 2)) - {"cd"} for _, b in x[2]):
            return "poison:" + how
    return "total-or-other"


def prune_descs(jump, ds, ops):
    """drop allocator objects no operation reaches (directly or through a wrapper) and renumber"""
    used = set()
    for o in ops:
        if o[0] in (":a", ":f", ":A", ":F"):
            used.add(int(o[2], 16))
        elif o[0] == ":r":
            used.add(int(o[1], 16))
    todo = list(used)
    while todo:
        i = todo.pop()
        if i < len(ds) and ds[i][0] != "p" and ds[i][1] not in used:
            used.add(ds[i][1])
            todo.append(ds[i][1])
    keep = sorted(i for i in used if i < len(ds))
    if len(keep) == len(ds):
        return None
    ren = {old: new for new, old in enumerate(keep)}
    nds = [ds[i] if ds[i][0] == "p" else (ds[i][0], ren[ds[i][1]]) for i in keep]
    nops = []
    for o in ops:
        o = list(o)
        if o[0] in (":a", ":f", ":A", ":F"):
            o[2] = "%x" % ren[int(o[2], 16)]
        elif o[0] == ":r":
            o[1] = "%x" % ren[int(o[1], 16)]
        nops.append(o)
    return unparse(jump, nds, nops)


def shrink(s):
    if is_edge(s):
        yield from eshrink(s)
        return
    jump, ds, ops = parse(s)
    c = prune_descs(jump, ds, ops)
    if c:
        yield c
    # drop one operation
    for i in range(len(ops)):
        yield unparse(jump, ds, ops[:i] + ops[i + 1:])
    if jump:
        yield unparse(0, ds, ops)
    # a run of overload switches replaced by the single switch that installs the same overloads (then by none)
    for i, o in enumerate(ops):
        if o[0] in (":o", ":m"):
            j = i
            while j < len(ops) and ops[j][0] in (":o", ":m"):
                j += 1
            if j - i >= 2:
                for k in (1, 2):
                    yield unparse(jump, ds, ops[:i] + [O(k)] + ops[j:])
                yield unparse(jump, ds, ops[:i] + ops[j:])
    # a special form replaced by the plain form of its family
    for i, o in enumerate(ops):
        if o[0] == ":A" and int(o[1], 16) not in PLAIN_AFORM:
            yield unparse(jump, ds, ops[:i] + [[":A", "%x" % PLAIN_AFORM[AFORM_FAM[int(o[1], 16)]]] + o[2:]] + ops[i + 1:])
        if o[0] == ":F" and int(o[1], 16) not in PLAIN_RFORM:
            yield unparse(jump, ds, ops[:i] + [[":F", "%x" % PLAIN_RFORM[RFORM_FAM[int(o[1], 16)]]] + o[2:]] + ops[i + 1:])
    # smaller blocks
    for i, o in enumerate(ops):
        if o[0] in (":a", ":A") and int(o[4], 16) > 1:
            yield unparse(jump, ds, ops[:i] + [o[:4] + ["1"]] + ops[i + 1:])
    # shorter write payloads (from the back / from the front)
    for i, o in enumerate(ops):
        if o[0] == ":w" and len(o[2]) > 3:
            b = bytes.fromhex(o[2][1:])
            yield unparse(jump, ds, ops[:i] + [[":w", o[1], tb(b[:-1])]] + ops[i + 1:])
            yield unparse(jump, ds, ops[:i] + [[":w", "%x" % (int(o[1], 16) + 1), tb(b[1:])]] + ops[i + 1:])
    # a release through a wrapper / second object replaced by the plain allocator it stands for
    for i, o in enumerate(ops):
        k = 2 if o[0] in (":a", ":f", ":A", ":F") else 1 if o[0] == ":r" else None
        if k is not None:
            al = int(o[k], 16)
            if al < len(ds) and ds[al][0] == "k":
                o2 = list(o)
                o2[k] = "%x" % ds[al][1]
                yield unparse(jump, ds, ops[:i] + [o2] + ops[i + 1:])
