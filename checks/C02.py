"""C02 -- every selected test runs exactly once per repetition; selection follows the filters; reverse/shuffle only permute.
Scenario:    ri rev shuffle seed repeat route real  nT (group name ignored)*  nG (pat strict invert)*  nN (pat strict invert)*  nR rand*
             route 0 = API (TestFilter lists, setRunIgnored, reverseTests, shuffleTests), 1 = argv through CommandLineTestRunner,
             2 = argv with group/name filters paired into -t/-st/-xt/-xst where possible;  real 1 = the platform's srand/rand
             are used (the rand list is then the stream libc gives for that seed, computed here through ctypes).
Observation: (:rep nOrd id* nS seed* nR rand* nW event* tests run ignored filtered)*  :tot nT count*      (see harness/C02.cpp)"""
import ctypes
import itertools
from vlib import tz, tb
ID = "C02"
FLAVOURS = ["asan"]
HARNESS_SRCS = ["harness/C02.cpp"]
RULE = ("registries of 0-200 scripted tests (normal and IGNORE_TEST mixed) with group/name strings over a 3-letter alphabet (plus empty, "
        "high-bit and dotted strings) so that substring filters hit, miss, equal a name or are longer than it; 0-4 group and 0-4 name "
        "filters of all four kinds (substring / strict / inverted / inverted strict), patterns drawn from the registry's own strings, "
        "their substrings and extensions; run-ignored on/off; reverse; shuffling with scripted rand() streams aimed at the loop's "
        "boundaries (j = i, j = 0, j = i - 1, RAND_MAX, exhausted stream), exhaustively every residue tuple for 2-5 tests, and with the "
        "platform's real srand/rand for seeds 1..50 (quick) / 1..2000 (thorough) x sizes {0,1,2,3,7,64}; "
        "repeat 1-4 (reshuffle per repetition); every configuration through the API and through CommandLineTestRunner argv. "
        "non-trivial = at least two tests and (a filter, or reverse, or shuffle, or an ignored test)")
ASSUMPTIONS = ["group, name and filter strings are C strings (no NUL byte)",
               "rand() returns values in 0..RAND_MAX (2^31-1)",
               "tests do not fail, crash or run in a separate process (C01/C11 cover those)",
               "through the command line: repeat >= 1 and shuffle seed in 1..2^32-1 (what the option syntax can express)"]
CRASH_IS_VIOLATION = True
PER_TIMEOUT = 8.0
ALPHA = [0x61, 0x62, 0x63]
_libc = None


def libc_stream(seed, n):
    global _libc
    if _libc is None:
        _libc = ctypes.CDLL("libc.so.6")
    _libc.srand(ctypes.c_uint(seed & 0xffffffff))
    return [_libc.rand() for _ in range(n)]


def word(rng, lo=0, hi=4):
    n = rng.randrange(lo, hi + 1)
    return bytes(rng.choice(ALPHA) for _ in range(n))


def odd_string(rng):
    c = rng.random()
    if c < 0.3:
        return b""
    if c < 0.5:
        return bytes([rng.choice([0x80, 0xff, 0x01, 0x7f])]) + word(rng, 0, 2)
    if c < 0.7:
        return word(rng, 0, 2) + b"." + word(rng, 0, 2)
    if c < 0.85:
        return b"-" + word(rng, 1, 2)
    return word(rng, 5, 9)


def name_pool(rng):
    """a few strings related by substring / prefix / equality so filters separate them"""
    base = word(rng, 1, 3)
    pool = [base, base + word(rng, 1, 2), word(rng, 1, 2) + base, base[:-1], word(rng, 0, 3), word(rng, 1, 4)]
    if rng.random() < 0.25:
        pool.append(odd_string(rng))
    if rng.random() < 0.2:
        pool.append(b"")
    if rng.random() < 0.3:
        # a self-overlapping pattern and a name in which its only occurrence starts inside a failed partial match
        u, x, k = word(rng, 1, 2), word(rng, 1, 1), rng.randrange(1, 3)
        pool += [u * k + x, word(rng, 0, 1) + u * (k + 1) + x + word(rng, 0, 1)]
    return pool


def gen_tests(rng, n):
    gp = name_pool(rng)
    if rng.random() < 0.5:
        gp = gp[:rng.randrange(1, 4)]
    npool = name_pool(rng)
    pign = rng.choice([0.0, 0.2, 0.5, 1.0])
    runs = rng.random() < 0.5     # tests of one group registered next to each other, as TEST_GROUP files do
    tests = []
    g = rng.choice(gp)
    for i in range(n):
        if not runs or rng.random() < 0.35:
            g = rng.choice(gp)
        nm = rng.choice(npool) if rng.random() < 0.8 else word(rng, 0, 4)
        tests.append((g, nm, 1 if rng.random() < pign else 0))
    return tests


def mutate_pat(rng, s):
    c = rng.random()
    if c < 0.35:
        return s
    if c < 0.55 and len(s) > 0:
        a = rng.randrange(len(s))
        b = rng.randrange(a, len(s) + 1)
        return s[a:b]
    if c < 0.7:
        return s + word(rng, 1, 1)
    if c < 0.8:
        return word(rng, 1, 1) + s
    if c < 0.88:
        return b""
    if c < 0.94:
        return odd_string(rng)
    return word(rng, 0, 4)


def gen_filters(rng, strings, kmax=4):
    k = rng.choice([0, 0, 1, 1, 1, 2, 2, 3, kmax])
    out = []
    for _ in range(k):
        src = rng.choice(strings) if strings else word(rng)
        out.append((mutate_pat(rng, src), rng.randrange(2), rng.randrange(2)))
    return out


def scripted_rands(rng, n):
    """one value per loop iteration i = n-1 .. 1, aimed at j = rand % (i+1) boundaries"""
    mode = rng.randrange(6)
    out = []
    for i in range(n - 1, 0, -1):
        c = mode if mode < 5 else rng.randrange(5)
        if c == 0:
            v = rng.randrange(1 << 31)
        elif c == 1:
            v = i + (i + 1) * rng.randrange(0, 1000)              # j = i: swap with itself
        elif c == 2:
            v = (i + 1) * rng.randrange(0, 1000)                  # j = 0
        elif c == 3:
            v = max(i - 1, 0) + (i + 1) * rng.randrange(0, 3)     # j = i - 1
        else:
            v = rng.choice([0, 1, (1 << 31) - 1, (1 << 31) - 2, i, i + 1])
        out.append(v & 0x7fffffff)
    c = rng.random()
    if c < 0.15 and out:
        out = out[:rng.randrange(len(out))]                       # stream shorter than needed: the stub returns 0
    elif c < 0.25:
        out += [rng.randrange(1 << 31) for _ in range(rng.randrange(1, 4))]
    return out


def fmt(ri, rev, shuffle, seed, repeat, route, real, tests, gf, nf, rands):
    t = ["%x %x %x %x %x %x %x" % (ri, rev, shuffle, seed, repeat, route, real), "%x" % len(tests)]
    for g, n, ig in tests:
        t.append("%s %s %x" % (tb(g), tb(n), ig))
    for fl in (gf, nf):
        t.append("%x" % len(fl))
        for p, s, x in fl:
            t.append("%s %x %x" % (tb(p), s, x))
    t.append("%x" % len(rands))
    t += ["%x" % r for r in rands]
    return " ".join(t)


def parse(s):
    t = s.split()
    ri, rev, sh, seed, rep, route, real = [int(x, 16) for x in t[:7]]
    i = 7
    n = int(t[i], 16)
    i += 1
    tests = []
    for _ in range(n):
        tests.append((bytes.fromhex(t[i][1:]), bytes.fromhex(t[i + 1][1:]), int(t[i + 2], 16)))
        i += 3
    fls = []
    for _ in range(2):
        k = int(t[i], 16)
        i += 1
        fl = []
        for _ in range(k):
            fl.append((bytes.fromhex(t[i][1:]), int(t[i + 1], 16), int(t[i + 2], 16)))
            i += 3
        fls.append(fl)
    k = int(t[i], 16)
    rands = [int(x, 16) for x in t[i + 1:i + 1 + k]]
    return dict(ri=ri, rev=rev, shuffle=sh, seed=seed, repeat=rep, route=route, real=real, tests=tests, gf=fls[0], nf=fls[1], rands=rands)


def unparse(d):
    return fmt(d["ri"], d["rev"], d["shuffle"], d["seed"], d["repeat"], d["route"], d["real"], d["tests"], d["gf"], d["nf"], d["rands"])


def pick_size(rng, big):
    c = rng.random()
    if c < 0.3:
        return rng.choice([0, 1, 2, 3])
    if c < 0.7:
        return rng.randrange(2, 9)
    if c < 0.93:
        return rng.randrange(9, 40)
    return rng.choice([64, 65, 100, big])


def random_scenario(rng, big=64, force=None):
    n = pick_size(rng, big)
    tests = gen_tests(rng, n)
    gstr = sorted(set(t[0] for t in tests)) or [b"a"]
    nstr = sorted(set(t[1] for t in tests)) or [b"a"]
    gf = gen_filters(rng, gstr)
    nf = gen_filters(rng, nstr)
    ri = 1 if rng.random() < 0.3 else 0
    rev = 1 if rng.random() < 0.3 else 0
    shuffle = 1 if rng.random() < 0.5 else 0
    if force == "shuffle":
        shuffle = 1
    if force == "filters":
        shuffle = 1 if rng.random() < 0.15 else 0
    route = rng.choice([0, 0, 1, 1, 2])
    repeat = rng.choice([1, 1, 1, 2, 2, 3, 4])
    if route == 0 and rng.random() < 0.03:
        repeat = 0
    real = 0
    seed = rng.choice([1, 2, rng.randrange(1, 2000), rng.randrange(1, 1 << 32), (1 << 32) - 1])
    rands = []
    if shuffle:
        if rng.random() < 0.3:
            real = 1
            rands = libc_stream(seed, max(n - 1, 0))
        else:
            rands = scripted_rands(rng, n)
        if route == 0 and rng.random() < 0.1:
            seed = rng.choice([0, 1 << 32, (1 << 32) + 5, (1 << 40) + 3]) if not real else seed
    return fmt(ri, rev, shuffle, seed, repeat, route, real, tests, gf, nf, rands)


def seed_sweep(rng, seeds, sizes):
    """the platform's real generator: every seed x the listed sizes, distinct tests, no filters"""
    out = []
    for n in sizes:
        tests = [(b"g%d" % (i % 3), b"t%d" % i, 0) for i in range(n)]
        for seed in seeds:
            rep = 1 if seed % 3 else 2
            out.append(fmt(0, 0, 1, seed, rep, seed % 2, 1, tests, [], [], libc_stream(seed, max(n - 1, 0))))
    return out


def filter_grid():
    """every filter kind x (hit / miss / equal / longer / empty pattern) on a fixed small registry, group and name side"""
    tests = [(b"ab", b"abc", 0), (b"ab", b"bc", 1), (b"abc", b"abc", 0), (b"b", b"", 0), (b"", b"c", 1), (b"ab", b"abcd", 0)]
    pats = [b"", b"a", b"b", b"ab", b"abc", b"abcd", b"bc", b"c", b"x"]
    out = []
    for st in (0, 1):
        for iv in (0, 1):
            for p in pats:
                for ri in (0, 1):
                    out.append(fmt(ri, 0, 0, 1, 1, 0, 0, tests, [(p, st, iv)], [], []))
                    out.append(fmt(ri, 0, 0, 1, 1, 1, 0, tests, [], [(p, st, iv)], []))
    # two filters of one list are ORed, the two lists are ANDed
    for p in pats[:6]:
        for q in pats[3:]:
            out.append(fmt(0, 0, 0, 1, 1, 2, 0, tests, [(p, 1, 0), (q, 0, 1)], [(q, 0, 0), (p, 1, 1)], []))
            out.append(fmt(0, 1, 0, 1, 2, 0, 0, tests, [(p, 0, 0)], [(q, 1, 0), (p, 0, 0)], []))
    return out


def exhaustive_shuffles():
    """every residue tuple of the Fisher-Yates loop for 2..5 tests: every permutation the loop can produce"""
    out = []
    for n in range(2, 6):
        tests = [(b"g%d" % (i % 2), b"t%d" % i, 0) for i in range(n)]
        for tup in itertools.product(*[range(i + 1) for i in range(n - 1, 0, -1)]):
            out.append(fmt(0, n % 2, 1, 1, 1, 0, 0, tests, [], [], list(tup)))
    return out


def generate(tier, rng):
    quick = tier == "quick"
    out = filter_grid() + exhaustive_shuffles()
    out += seed_sweep(rng, range(1, 51 if quick else 2001), [0, 1, 2, 3, 7, 64])
    n = 2500 if quick else 60000
    big = 64 if quick else 200
    for k in range(n):
        out.append(random_scenario(rng, big, [None, "shuffle", "filters"][k % 3]))
    return out


def nontrivial(s):
    d = parse(s)
    return len(d["tests"]) >= 2 and bool(d["gf"] or d["nf"] or d["rev"] or d["shuffle"] or any(t[2] for t in d["tests"]))


def classify(s):
    d = parse(s)
    n = len(d["tests"])
    lab = ["tests:" + ("0" if n == 0 else "1" if n == 1 else "2-8" if n <= 8 else "9-63" if n < 64 else ">=64")]
    lab.append("route:%d" % d["route"])
    lab.append("repeat:%d" % d["repeat"])
    if d["shuffle"]:
        lab.append("shuffle:" + ("libc" if d["real"] else "scripted"))
    if d["rev"]:
        lab.append("reverse")
    if d["ri"]:
        lab.append("run-ignored")
    if any(t[2] for t in d["tests"]):
        lab.append("has-ignored-tests")
    for side, fl in (("g", d["gf"]), ("n", d["nf"])):
        lab.append("%sfilters:%d" % (side, len(fl)))
        for p, st, iv in fl:
            lab.append("filter:" + ["substring", "strict", "inverted", "inverted-strict"][st + 2 * iv])
    return lab


def parse_obs(o):
    t = o.split()
    i = 0
    reps = []
    while i < len(t) and t[i] == ":rep":
        i += 1
        lists = []
        for _ in range(3):
            k = int(t[i], 16)
            lists.append([int(x, 16) for x in t[i + 1:i + 1 + k]])
            i += 1 + k
        w = int(t[i], 16)
        i += 1
        word = []
        for _ in range(w):
            if t[i] in (":G", ":s", ":b"):
                word.append((t[i], int(t[i + 1], 16)))
                i += 2
            else:
                word.append((t[i], None))
                i += 1
        cnt = [int(x, 16) for x in t[i:i + 4]]
        i += 4
        reps.append(dict(order=lists[0], seeds=lists[1], rands=lists[2], word=word, cnt=cnt))
    if t[i] != ":tot":
        raise ValueError("no :tot")
    k = int(t[i + 1], 16)
    tot = [int(x, 16) for x in t[i + 2:i + 2 + k]]
    if len(tot) != k or i + 2 + k != len(t):
        raise ValueError("bad :tot")
    return reps, tot


def py_accepts(f, x):
    pat, strict, invert = f
    base = (x == pat) if strict else (pat in x)
    return base != bool(invert)


def py_selected(d, t):
    return ((not d["gf"]) or any(py_accepts(f, t[0]) for f in d["gf"])) and ((not d["nf"]) or any(py_accepts(f, t[1]) for f in d["nf"]))


def diagnose(d, o):
    """the property, clause by clause, judged in Python independently of the extracted spec: None or the first clause that fails"""
    try:
        reps, tot = parse_obs(o)
    except Exception:
        return "malformed observation"
    tests = d["tests"]
    n = len(tests)
    sel = [py_selected(d, t) for t in tests]
    exe = [sel[i] and (not tests[i][2] or bool(d["ri"])) for i in range(n)]
    ign = [sel[i] and bool(tests[i][2]) and not d["ri"] for i in range(n)]
    how = "shuffle" if d["shuffle"] else "reverse" if d["rev"] else "plain"
    for r in reps:        # a broken list stops the harness early: report the order, not the missing repetitions
        if sorted(r["order"]) != list(range(n)):
            return "order is not a permutation: a test lost or duplicated (%s)" % how
    if len(reps) != d["repeat"]:
        return "number of repetitions wrong"
    for r in reps:
        if sorted(r["order"]) != list(range(n)):
            return "order is not a permutation: a test lost or duplicated (%s)" % how
        if not d["shuffle"] and r["order"] != (list(range(n)) if d["rev"] else list(range(n - 1, -1, -1))):
            return "order is a permutation but not the %s order" % ("reversed" if d["rev"] else "registered")
        w = r["word"]
        if len(w) < 2 or w[0][0] != ":S" or w[-1][0] != ":E":
            return "callback word does not start/end with tests started/ended"
        st = "out"
        for e, i in w[1:-1]:
            if st == "out" and e == ":G" and i < n:
                st = "grp"
                g = i
            elif st == "grp" and e == ":s" and i < n:
                if tests[i][0] != tests[g][0]:
                    return "a test was started inside the group segment of another group"
                st = ("tst", i)
            elif st == "grp" and e == ":g":
                st = "out"
            elif isinstance(st, tuple) and st[0] == "tst" and e == ":b" and i == st[1]:
                st = ("bdy", i)
            elif isinstance(st, tuple) and e == ":e":
                st = "grp"
            else:
                return "group/test notifications not balanced"
        if st != "out":
            return "group/test notifications not balanced"
        for i in range(n):
            if sum(1 for e in w if e == (":s", i)) != (1 if sel[i] else 0):
                return "selection wrong: a test %s" % ("selected by the filters was not started exactly once" if sel[i] else "not selected by the filters was started")
            if sum(1 for e in w if e == (":b", i)) != (1 if exe[i] else 0):
                return "execution wrong: a test body ran %s" % ("not exactly once" if exe[i] else "although ignored or not selected")
        c = r["cnt"]
        if c[0] != n:
            return "test count differs from the number of registered tests"
        if c[0] != c[1] + c[2] + c[3]:
            return "tests != run + ignored + filtered out"
        if c[1] != sum(exe):
            return "run count wrong"
        if c[2] != sum(ign):
            return "ignored count wrong"
        if c[3] != n - sum(sel):
            return "filtered-out count wrong"
    if tot != [d["repeat"] * (1 if exe[i] else 0) for i in range(n)]:
        return "per-test execution counters wrong over the repetitions"
    return None


def signature(s, o):
    if o.startswith("!"):
        return "crash " + o[:60]
    return diagnose(parse(s), o) or "spec false (python judge sees nothing wrong)"


def extra_oracle(s, o, flavour):
    d = parse(s)
    if any(0 in x for t in d["tests"] for x in t[:2]) or any(0 in f[0] for f in d["gf"] + d["nf"]):
        return None
    return diagnose(d, o)


def shrink(s):
    d = parse(s)

    def variant(**kw):
        e = dict(d)
        e.update(kw)
        if e["shuffle"] and e["real"]:
            e["rands"] = libc_stream(e["seed"], max(len(e["tests"]) - 1, 0))
        return unparse(e)
    n = len(d["tests"])
    chunk = n // 2
    while chunk >= 1:                       # ddmin-like: drop blocks of tests, large blocks first
        for a in range(0, n, chunk):
            yield variant(tests=d["tests"][:a] + d["tests"][a + chunk:])
        chunk //= 2
    for key in ("gf", "nf"):
        for i in range(len(d[key])):
            yield variant(**{key: d[key][:i] + d[key][i + 1:]})
    if d["repeat"] > 1:
        yield variant(repeat=1)
        yield variant(repeat=d["repeat"] - 1)
    if d["route"] != 0:
        yield variant(route=0)
    if d["shuffle"] and not d["gf"] and not d["nf"]:
        pass
    if d["shuffle"]:
        yield variant(shuffle=0, rands=[], real=0)
        if d["real"]:
            yield variant(real=0)
        else:
            for i in range(len(d["rands"])):
                if d["rands"][i] != 0:
                    r = list(d["rands"])
                    r[i] = 0
                    yield variant(rands=r)
            if d["rands"]:
                yield variant(rands=d["rands"][:-1])
    if d["rev"]:
        yield variant(rev=0)
    if d["ri"]:
        yield variant(ri=0)
    for i, (g, nm, ig) in enumerate(d["tests"]):
        if ig:
            yield variant(tests=d["tests"][:i] + [(g, nm, 0)] + d["tests"][i + 1:])
        if len(g) > 1:
            yield variant(tests=d["tests"][:i] + [(g[:-1], nm, ig)] + d["tests"][i + 1:])
        if len(nm) > 1:
            yield variant(tests=d["tests"][:i] + [(g, nm[:-1], ig)] + d["tests"][i + 1:])


LEVEL_TEXT = ("Machine-checked (Coq) theorems over an executable model of TestRegistry::addTest/runAllTests/endOfGroup/testShouldRun (count, filter, "
              "run, group boundaries), UtestShell::match/shouldRun over TestFilter lists with TestFilter::match on the C13 models of StrStr/StrCmp, "
              "IgnoredUtestShell::runOneTest, the four TestResult counters, UtestShellPointerArray (constructor, swap, Fisher-Yates shuffle, reverse, "
              "relink; bounds-checked indexing) and the reverse / shuffle-per-repetition / repeat loop of CommandLineTestRunner::runAllTests: for "
              "every list, filter lists, flags and rand() stream the counters satisfy tests = run + ignored + filtered = number of tests, every "
              "selected test is started exactly once (its body once unless counted as ignored), selection is the declarative 'some filter of each "
              "given list accepts' with substring = exists pre post / equality / negation, shuffle never indexes outside the array and yields a "
              "permutation, reverse = rev, relink = identity, group notifications are balanced with every test inside a segment of its own group. "
              "Tied to the code by a differential run of the extracted model against a real TestRegistry (API and argv routes, scripted and real "
              "rand()), with the extracted model-free spec and an independent Python judge evaluating the implementation's observation.")
LEVEL_NOTE = ("Trusted: Coq kernel, extraction, harness, generator. Modelled not verified: the C++ itself; the singly linked list is the Coq list it "
              "denotes (cons = addTest), so aliasing effects of relinking are seen only by the harness (list walk bounded by the number of tests). "
              "The platform's rand() is scenario input (the stream libc gives for the seed is computed by the generator and compared with the calls "
              "the harness records). Exact shuffled order and the srand/rand calls are compared model-vs-implementation but not demanded by the "
              "oracle (any permutation satisfies the property). Translation of argv into filter lists is C12's subject; here argv is only a route.")
TECHNIQUE = "Coq proof over hand-written executable model + extracted-model/implementation correspondence check (differential, exhaustive small shuffles and filter grid)"
READY = True
