"""C02 -- every selected test runs exactly once per repetition; selection follows the filters; reverse/shuffle only permute.
Scenario:    ri rev shuffle seed repeat route real  nT (group name ignored)*  nG (pat strict invert)*  nN (pat strict invert)*  nR rand*
             route 0 = API (TestFilter lists, setRunIgnored, reverseTests, shuffleTests), 1 = argv through CommandLineTestRunner,
             2 = argv with group/name filters paired into -t/-st/-xt/-xst where possible;  real 1 = the platform's srand/rand
             are used (the rand list is then the stream libc gives for that seed, computed here through ctypes).
             A scenario is a SESSION on one registry: after the first run any number of further runs
             (:r ri rev shuffle seed repeat route real list  nG (pat strict invert)*  nN (pat strict invert)*  nR rand*)*
             each with its own configuration; list 1/2/3 = a listing run (-lg / -ln / -ll): filters installed, nothing run.
Observation: (:run (:rep nOrd id* nS seed* nR rand* nW event* tests run ignored filtered)*)*  :tot nT count*      (see harness/C02.cpp)"""
import ctypes
import itertools
from vlib import tz, tb
ID = "C02"
FLAVOURS = ["asan"]
HARNESS_SRCS = ["harness/C02.cpp"]
RULE = ("registries of 0-200 scripted tests (normal and IGNORE_TEST mixed) with group/name strings over a 3-letter alphabet (plus empty, "
        "high-bit and dotted strings) so that substring filters hit, miss, equal a name or are longer than it; 0-4 group and 0-4 name "
        "filters of all four kinds (substring / strict / inverted / inverted strict), patterns drawn from the registry's own strings, "
        "their substrings and extensions; run-ignored on/off; reverse; shuffling with scripted rand() streams aimed at the loop's "
        "boundaries (j = i, j = 0, j = i - 1, RAND_MAX, exhausted stream), exhaustively every residue tuple for 2-5 tests, and with the "
        "platform's real srand/rand for seeds 1..50 (quick) / 1..2000 (thorough) x sizes {0,1,2,3,7,64}; "
        "repeat 1-4 (reshuffle per repetition); every configuration through the API and through CommandLineTestRunner argv. "
        "Sessions = 2-5 runs on ONE registry, each with its own route, filters (both kinds / one kind only / none), -ri, -b, shuffle, "
        "repeat, or a listing run (-lg/-ln/-ll): a fixed grid (every filter kind x both sides x both routes, then no filter / the other "
        "kind only / a listing run in between), sessions aimed at a filter list going stale (filters of one kind installed by a run or a "
        "listing run, later a run with none of that kind: directly, after a listing run, after another run), and random sessions. "
        "non-trivial = at least two tests and (a filter, or reverse, or shuffle, or an ignored test)")
ASSUMPTIONS = ["group, name and filter strings are C strings (no NUL byte)",
               "rand() returns values in 0..RAND_MAX (2^31-1)",
               "tests do not fail, crash or run in a separate process (C01/C11 cover those)",
               "through the command line: repeat >= 1 and shuffle seed in 1..2^32-1 (what the option syntax can express)",
               "sessions: the registered tests do not change between the runs of a session; the objects that own a run's filter lists "
               "(the CommandLineTestRunner, the API caller's TestFilter chain) outlive the session; whether run-ignored stays on after a "
               "run that asked for it is not constrained by the property (both accepted by the oracle; the model keeps it, as the code does)"]
CRASH_IS_VIOLATION = True
PER_TIMEOUT = 8.0
ALPHA = [0x61, 0x62, 0x63]
_libc = None


def libc_stream(seed, n):
    global _libc
    if _libc is None:
        _libc = ctypes.CDLL("libc.so.6")
    _libc.srand(ctypes.c_uint(seed & 0xffffffff))
    return [_libc.rand() for _ in range(n)]


def word(rng, lo=0, hi=4):
    n = rng.randrange(lo, hi + 1)
    return bytes(rng.choice(ALPHA) for _ in range(n))


def odd_string(rng):
    c = rng.random()
    if c < 0.3:
        return b""
    if c < 0.5:
        return bytes([rng.choice([0x80, 0xff, 0x01, 0x7f])]) + word(rng, 0, 2)
    if c < 0.7:
        return word(rng, 0, 2) + b"." + word(rng, 0, 2)
    if c < 0.85:
        return b"-" + word(rng, 1, 2)
    return word(rng, 5, 9)


def name_pool(rng):
    """a few strings related by substring / prefix / equality so filters separate them"""
    base = word(rng, 1, 3)
    pool = [base, base + word(rng, 1, 2), word(rng, 1, 2) + base, base[:-1], word(rng, 0, 3), word(rng, 1, 4)]
    if rng.random() < 0.25:
        pool.append(odd_string(rng))
    if rng.random() < 0.2:
        pool.append(b"")
    if rng.random() < 0.3:
        # a self-overlapping pattern and a name in which its only occurrence starts inside a failed partial match
        u, x, k = word(rng, 1, 2), word(rng, 1, 1), rng.randrange(1, 3)
        pool += [u * k + x, word(rng, 0, 1) + u * (k + 1) + x + word(rng, 0, 1)]
    return pool


def gen_tests(rng, n):
    gp = name_pool(rng)
    if rng.random() < 0.5:
        gp = gp[:rng.randrange(1, 4)]
    npool = name_pool(rng)
    pign = rng.choice([0.0, 0.2, 0.5, 1.0])
    runs = rng.random() < 0.5     # tests of one group registered next to each other, as TEST_GROUP files do
    tests = []
    g = rng.choice(gp)
    for i in range(n):
        if not runs or rng.random() < 0.35:
            g = rng.choice(gp)
        nm = rng.choice(npool) if rng.random() < 0.8 else word(rng, 0, 4)
        tests.append((g, nm, 1 if rng.random() < pign else 0))
    return tests


def mutate_pat(rng, s):
    c = rng.random()
    if c < 0.35:
        return s
    if c < 0.55 and len(s) > 0:
        a = rng.randrange(len(s))
        b = rng.randrange(a, len(s) + 1)
        return s[a:b]
    if c < 0.7:
        return s + word(rng, 1, 1)
    if c < 0.8:
        return word(rng, 1, 1) + s
    if c < 0.88:
        return b""
    if c < 0.94:
        return odd_string(rng)
    return word(rng, 0, 4)


def gen_filters(rng, strings, kmax=4):
    k = rng.choice([0, 0, 1, 1, 1, 2, 2, 3, kmax])
    out = []
    for _ in range(k):
        src = rng.choice(strings) if strings else word(rng)
        out.append((mutate_pat(rng, src), rng.randrange(2), rng.randrange(2)))
    return out


def scripted_rands(rng, n):
    """one value per loop iteration i = n-1 .. 1, aimed at j = rand % (i+1) boundaries"""
    mode = rng.randrange(6)
    out = []
    for i in range(n - 1, 0, -1):
        c = mode if mode < 5 else rng.randrange(5)
        if c == 0:
            v = rng.randrange(1 << 31)
        elif c == 1:
            v = i + (i + 1) * rng.randrange(0, 1000)              # j = i: swap with itself
        elif c == 2:
            v = (i + 1) * rng.randrange(0, 1000)                  # j = 0
        elif c == 3:
            v = max(i - 1, 0) + (i + 1) * rng.randrange(0, 3)     # j = i - 1
        else:
            v = rng.choice([0, 1, (1 << 31) - 1, (1 << 31) - 2, i, i + 1])
        out.append(v & 0x7fffffff)
    c = rng.random()
    if c < 0.15 and out:
        out = out[:rng.randrange(len(out))]                       # stream shorter than needed: the stub returns 0
    elif c < 0.25:
        out += [rng.randrange(1 << 31) for _ in range(rng.randrange(1, 4))]
    return out


def _fl(fl):
    out = ["%x" % len(fl)]
    for p, s, x in fl:
        out.append("%s %x %x" % (tb(p), s, x))
    return out


def fmt_run(r):
    """one further run of a session"""
    t = [":r %x %x %x %x %x %x %x %x" % (r["ri"], r["rev"], r["shuffle"], r["seed"], r["repeat"], r["route"], r["real"], r["list"])]
    t += _fl(r["gf"]) + _fl(r["nf"])
    t.append("%x" % len(r["rands"]))
    t += ["%x" % v for v in r["rands"]]
    return " ".join(t)


def fmt(ri, rev, shuffle, seed, repeat, route, real, tests, gf, nf, rands, more=()):
    t = ["%x %x %x %x %x %x %x" % (ri, rev, shuffle, seed, repeat, route, real), "%x" % len(tests)]
    for g, n, ig in tests:
        t.append("%s %s %x" % (tb(g), tb(n), ig))
    t += _fl(gf) + _fl(nf)
    t.append("%x" % len(rands))
    t += ["%x" % r for r in rands]
    t += [fmt_run(r) for r in more]
    return " ".join(t)


def mkrun(gf=(), nf=(), ri=0, rev=0, shuffle=0, seed=1, repeat=1, route=1, real=0, list_=0, rands=()):
    return dict(ri=ri, rev=rev, shuffle=shuffle, seed=seed, repeat=repeat, route=route, real=real, list=list_, gf=list(gf), nf=list(nf),
                rands=list(rands))


def parse(s):
    t = s.split()
    ri, rev, sh, seed, rep, route, real = [int(x, 16) for x in t[:7]]
    i = 7
    n = int(t[i], 16)
    i += 1
    tests = []
    for _ in range(n):
        tests.append((bytes.fromhex(t[i][1:]), bytes.fromhex(t[i + 1][1:]), int(t[i + 2], 16)))
        i += 3

    def filters_and_rands(i):
        fls = []
        for _ in range(2):
            k = int(t[i], 16)
            i += 1
            fl = []
            for _ in range(k):
                fl.append((bytes.fromhex(t[i][1:]), int(t[i + 1], 16), int(t[i + 2], 16)))
                i += 3
            fls.append(fl)
        k = int(t[i], 16)
        rands = [int(x, 16) for x in t[i + 1:i + 1 + k]]
        return fls[0], fls[1], rands, i + 1 + k
    gf, nf, rands, i = filters_and_rands(i)
    more = []
    while i < len(t) and t[i] == ":r":
        v = [int(x, 16) for x in t[i + 1:i + 9]]
        g2, n2, r2, i = filters_and_rands(i + 9)
        more.append(dict(ri=v[0], rev=v[1], shuffle=v[2], seed=v[3], repeat=v[4], route=v[5], real=v[6], list=v[7], gf=g2, nf=n2, rands=r2))
    return dict(ri=ri, rev=rev, shuffle=sh, seed=seed, repeat=rep, route=route, real=real, tests=tests, gf=gf, nf=nf, rands=rands, more=more)


def unparse(d):
    return fmt(d["ri"], d["rev"], d["shuffle"], d["seed"], d["repeat"], d["route"], d["real"], d["tests"], d["gf"], d["nf"], d["rands"],
               d.get("more", ()))


def runs_of(d):
    """the runs of a session, first run included, as dicts with the keys of mkrun"""
    first = dict(ri=d["ri"], rev=d["rev"], shuffle=d["shuffle"], seed=d["seed"], repeat=d["repeat"], route=d["route"], real=d["real"],
                 list=0, gf=d["gf"], nf=d["nf"], rands=d["rands"])
    return [first] + list(d.get("more", ()))


def pick_size(rng, big):
    c = rng.random()
    if c < 0.3:
        return rng.choice([0, 1, 2, 3])
    if c < 0.7:
        return rng.randrange(2, 9)
    if c < 0.93:
        return rng.randrange(9, 40)
    return rng.choice([64, 65, 100, big])


def random_scenario(rng, big=64, force=None):
    n = pick_size(rng, big)
    tests = gen_tests(rng, n)
    gstr = sorted(set(t[0] for t in tests)) or [b"a"]
    nstr = sorted(set(t[1] for t in tests)) or [b"a"]
    gf = gen_filters(rng, gstr)
    nf = gen_filters(rng, nstr)
    ri = 1 if rng.random() < 0.3 else 0
    rev = 1 if rng.random() < 0.3 else 0
    shuffle = 1 if rng.random() < 0.5 else 0
    if force == "shuffle":
        shuffle = 1
    if force == "filters":
        shuffle = 1 if rng.random() < 0.15 else 0
    route = rng.choice([0, 0, 1, 1, 2])
    repeat = rng.choice([1, 1, 1, 2, 2, 3, 4])
    if route == 0 and rng.random() < 0.03:
        repeat = 0
    real = 0
    seed = rng.choice([1, 2, rng.randrange(1, 2000), rng.randrange(1, 1 << 32), (1 << 32) - 1])
    rands = []
    if shuffle:
        if rng.random() < 0.3:
            real = 1
            rands = libc_stream(seed, max(n - 1, 0))
        else:
            rands = scripted_rands(rng, n)
        if route == 0 and rng.random() < 0.1:
            seed = rng.choice([0, 1 << 32, (1 << 32) + 5, (1 << 40) + 3]) if not real else seed
    return fmt(ri, rev, shuffle, seed, repeat, route, real, tests, gf, nf, rands)


def seed_sweep(rng, seeds, sizes):
    """the platform's real generator: every seed x the listed sizes, distinct tests, no filters"""
    out = []
    for n in sizes:
        tests = [(b"g%d" % (i % 3), b"t%d" % i, 0) for i in range(n)]
        for seed in seeds:
            rep = 1 if seed % 3 else 2
            out.append(fmt(0, 0, 1, seed, rep, seed % 2, 1, tests, [], [], libc_stream(seed, max(n - 1, 0))))
    return out


def filter_grid():
    """every filter kind x (hit / miss / equal / longer / empty pattern) on a fixed small registry, group and name side"""
    tests = [(b"ab", b"abc", 0), (b"ab", b"bc", 1), (b"abc", b"abc", 0), (b"b", b"", 0), (b"", b"c", 1), (b"ab", b"abcd", 0)]
    pats = [b"", b"a", b"b", b"ab", b"abc", b"abcd", b"bc", b"c", b"x"]
    out = []
    for st in (0, 1):
        for iv in (0, 1):
            for p in pats:
                for ri in (0, 1):
                    out.append(fmt(ri, 0, 0, 1, 1, 0, 0, tests, [(p, st, iv)], [], []))
                    out.append(fmt(ri, 0, 0, 1, 1, 1, 0, tests, [], [(p, st, iv)], []))
    # two filters of one list are ORed, the two lists are ANDed
    for p in pats[:6]:
        for q in pats[3:]:
            out.append(fmt(0, 0, 0, 1, 1, 2, 0, tests, [(p, 1, 0), (q, 0, 1)], [(q, 0, 0), (p, 1, 1)], []))
            out.append(fmt(0, 1, 0, 1, 2, 0, 0, tests, [(p, 0, 0)], [(q, 1, 0), (p, 0, 0)], []))
    return out


def exhaustive_shuffles():
    """every residue tuple of the Fisher-Yates loop for 2..5 tests: every permutation the loop can produce"""
    out = []
    for n in range(2, 6):
        tests = [(b"g%d" % (i % 2), b"t%d" % i, 0) for i in range(n)]
        for tup in itertools.product(*[range(i + 1) for i in range(n - 1, 0, -1)]):
            out.append(fmt(0, n % 2, 1, 1, 1, 0, 0, tests, [], [], list(tup)))
    return out


def random_run(rng, n, gstr, nstr, first=False):
    """one run of a session: filters of both kinds, of one kind only, or none; sometimes a listing run"""
    c = rng.random()
    if c < 0.3:
        gf, nf = [], []
    elif c < 0.5:
        gf, nf = gen_filters(rng, gstr, 2) or [(rng.choice(gstr), 0, 0)], []
    elif c < 0.7:
        gf, nf = [], gen_filters(rng, nstr, 2) or [(rng.choice(nstr), 0, 0)]
    else:
        gf, nf = gen_filters(rng, gstr, 2), gen_filters(rng, nstr, 2)
    route = rng.choice([0, 1, 1, 1, 2])
    shuffle = 1 if rng.random() < 0.3 else 0
    real = 0
    seed = rng.choice([1, 2, rng.randrange(1, 2000), (1 << 32) - 1])
    rands = []
    if shuffle:
        if rng.random() < 0.25:
            real, rands = 1, libc_stream(seed, max(n - 1, 0))
        else:
            rands = scripted_rands(rng, n)
    repeat = rng.choice([1, 1, 1, 2, 2, 3])
    if route == 0 and rng.random() < 0.06:
        repeat = 0
    lst = 0 if first or rng.random() < 0.8 else rng.choice([1, 2, 2, 3])
    return mkrun(gf, nf, 1 if rng.random() < 0.2 else 0, 1 if rng.random() < 0.3 else 0, shuffle, seed, repeat, route, real, lst, rands)


def session(tests, runs):
    f = runs[0]
    return fmt(f["ri"], f["rev"], f["shuffle"], f["seed"], f["repeat"], f["route"], f["real"], tests, f["gf"], f["nf"], f["rands"], runs[1:])


def session_tests(rng, lo=2, hi=9):
    n = rng.randrange(lo, hi)
    tests = gen_tests(rng, n)
    if len(set(t[0] for t in tests)) < 2 and n >= 2:        # at least two groups, so that a group filter separates
        g, nm, ig = tests[-1]
        tests[-1] = (g + b"c" if g != b"c" * len(g) or not g else g + b"a", nm, ig)
    return tests


def random_session(rng):
    tests = session_tests(rng, 0 if rng.random() < 0.05 else 2, 10 if rng.random() < 0.9 else 40)
    n = len(tests)
    gstr = sorted(set(t[0] for t in tests)) or [b"a"]
    nstr = sorted(set(t[1] for t in tests)) or [b"a"]
    k = rng.choice([2, 2, 2, 3, 3, 4, 5])
    runs = [random_run(rng, n, gstr, nstr, first=True)] + [random_run(rng, n, gstr, nstr) for _ in range(k - 1)]
    return session(tests, runs)


def stale_session(rng):
    """aimed: a run (or a listing run) that installs filters of one kind, later a run that gives none of that kind -- directly after
    it, after a listing run, or after another run; both routes, both kinds, every filter kind, repeats, reverse / shuffle in between"""
    tests = session_tests(rng)
    n = len(tests)
    gstr = sorted(set(t[0] for t in tests))
    nstr = sorted(set(t[1] for t in tests))
    side = rng.randrange(2)                 # the kind that goes stale: 0 group, 1 name
    strs = nstr if side else gstr
    st, iv = rng.randrange(2), rng.randrange(2)
    flt = [(rng.choice(strs), st, iv)]
    if rng.random() < 0.3:
        flt.append((mutate_pat(rng, rng.choice(strs)), rng.randrange(2), rng.randrange(2)))
    other = gen_filters(rng, gstr if side else nstr, 2)

    def run(own, oth, **kw):
        gf, nf = (oth, own) if side else (own, oth)
        return mkrun(gf, nf, **kw)

    def extras():
        kw = dict(route=rng.choice([0, 1, 1, 1, 2]), repeat=rng.choice([1, 1, 2, 3]), ri=1 if rng.random() < 0.15 else 0,
                  rev=1 if rng.random() < 0.25 else 0)
        if rng.random() < 0.25:
            kw.update(shuffle=1, seed=rng.randrange(1, 100), rands=scripted_rands(rng, n))
        return kw
    a = run(flt, other if rng.random() < 0.4 else [], **extras())
    if rng.random() < 0.25:
        a["list"] = rng.choice([1, 2, 3])    # the filters come from a listing run
    b = run([], gen_filters(rng, gstr if side else nstr, 2) if rng.random() < 0.4 else [], **extras())
    c = rng.random()
    if a["list"]:
        runs = [mkrun(route=rng.choice([0, 1]), repeat=1), a, b]
    elif c < 0.55:
        runs = [a, b]
    elif c < 0.7:
        runs = [a, run([], [], list_=rng.choice([1, 2, 3]), route=rng.choice([0, 1])), b]   # a listing run without filters in between
    elif c < 0.85:
        runs = [a, b, run([], [], **extras())]
    else:
        runs = [run([], [], **extras()), a, b]
    return session(tests, runs)


def session_grid():
    """fixed small registry: run 1 with one filter (every kind, both sides, both routes), run 2 with no filter / with the other kind only"""
    tests = [(b"ab", b"x", 0), (b"ab", b"y", 1), (b"c", b"x", 0), (b"abc", b"xy", 0)]
    out = []
    for st in (0, 1):
        for iv in (0, 1):
            for r1 in (0, 1):
                for r2 in (0, 1):
                    g, nm = [(b"ab", st, iv)], [(b"x", st, iv)]
                    out.append(session(tests, [mkrun(g, [], route=r1), mkrun([], [], route=r2)]))
                    out.append(session(tests, [mkrun([], nm, route=r1), mkrun([], [], route=r2, repeat=2)]))
                    out.append(session(tests, [mkrun(g, [], route=r1), mkrun([], nm, route=r2)]))
                    out.append(session(tests, [mkrun([], nm, route=r1), mkrun(g, [], route=r2)]))
                    out.append(session(tests, [mkrun(g, nm, route=r1, ri=1), mkrun([], [], route=r2, rev=1)]))
                    out.append(session(tests, [mkrun([], [], route=r1), mkrun(g, nm, route=r2, list_=1 + st + iv), mkrun([], [], route=r1)]))
    return out


def generate(tier, rng):
    quick = tier == "quick"
    out = filter_grid() + exhaustive_shuffles() + session_grid()
    out += seed_sweep(rng, range(1, 51 if quick else 2001), [0, 1, 2, 3, 7, 64])
    n = 2500 if quick else 60000
    big = 64 if quick else 200
    for k in range(n):
        out.append(random_scenario(rng, big, [None, "shuffle", "filters"][k % 3]))
    for k in range(900 if quick else 15000):
        out.append(stale_session(rng) if k % 3 else random_session(rng))
    return out


def nontrivial(s):
    d = parse(s)
    rl = runs_of(d)
    return len(d["tests"]) >= 2 and bool(any(c["gf"] or c["nf"] or c["rev"] or c["shuffle"] for c in rl) or any(t[2] for t in d["tests"]))


def classify(s):
    d = parse(s)
    n = len(d["tests"])
    lab = ["tests:" + ("0" if n == 0 else "1" if n == 1 else "2-8" if n <= 8 else "9-63" if n < 64 else ">=64")]
    lab.append("route:%d" % d["route"])
    lab.append("repeat:%d" % d["repeat"])
    if d["shuffle"]:
        lab.append("shuffle:" + ("libc" if d["real"] else "scripted"))
    if d["rev"]:
        lab.append("reverse")
    if d["ri"]:
        lab.append("run-ignored")
    if any(t[2] for t in d["tests"]):
        lab.append("has-ignored-tests")
    for side, fl in (("g", d["gf"]), ("n", d["nf"])):
        lab.append("%sfilters:%d" % (side, len(fl)))
        for p, st, iv in fl:
            lab.append("filter:" + ["substring", "strict", "inverted", "inverted-strict"][st + 2 * iv])
    rl = runs_of(d)
    lab.append("runs:%d" % len(rl))
    if len(rl) > 1:
        lab.append("session:routes-" + "".join(sorted(set("a" if c["route"] == 0 else "c" for c in rl))))
        for k in range(1, len(rl)):
            c = rl[k]
            if c["list"]:
                lab.append("session:listing-run")
            for side in ("gf", "nf"):
                if not c[side] and any(p[side] for p in rl[:k]):
                    lab.append("session:no-%s-after-a-run-with-some" % side)
                    if rl[k - 1][side]:
                        lab.append("session:no-%s-directly-after-a-run-with-some" % side)
            if bool(c["gf"]) != bool(c["nf"]):
                lab.append("session:later-run-one-kind-only")
            if c["repeat"] > 1:
                lab.append("session:later-run-repeats")
            if c["shuffle"] or c["rev"]:
                lab.append("session:later-run-reorders")
            if not c["ri"] and any(p["ri"] for p in rl[:k]):
                lab.append("session:no-ri-after-ri")
    return lab


def parse_obs(o):
    """-> (runs, totals): runs = list (per run) of lists of repetitions"""
    t = o.split()
    i = 0
    runs = []
    while i < len(t) and t[i] in (":run", ":rep"):
        if t[i] == ":run":
            runs.append([])
            i += 1
            continue
        if not runs:
            raise ValueError(":rep before :run")
        i += 1
        lists = []
        for _ in range(3):
            k = int(t[i], 16)
            lists.append([int(x, 16) for x in t[i + 1:i + 1 + k]])
            i += 1 + k
        w = int(t[i], 16)
        i += 1
        word = []
        for _ in range(w):
            if t[i] in (":G", ":s", ":b"):
                word.append((t[i], int(t[i + 1], 16)))
                i += 2
            else:
                word.append((t[i], None))
                i += 1
        cnt = [int(x, 16) for x in t[i:i + 4]]
        i += 4
        runs[-1].append(dict(order=lists[0], seeds=lists[1], rands=lists[2], word=word, cnt=cnt))
    if t[i] != ":tot":
        raise ValueError("no :tot")
    k = int(t[i + 1], 16)
    tot = [int(x, 16) for x in t[i + 2:i + 2 + k]]
    if len(tot) != k or i + 2 + k != len(t):
        raise ValueError("bad :tot")
    return runs, tot


def py_accepts(f, x):
    pat, strict, invert = f
    base = (x == pat) if strict else (pat in x)
    return base != bool(invert)


def py_selected(c, t):
    """c: a run's own configuration"""
    return ((not c["gf"]) or any(py_accepts(f, t[0]) for f in c["gf"])) and ((not c["nf"]) or any(py_accepts(f, t[1]) for f in c["nf"]))


def judge_rep(tests, c, ri, order, r):
    """one repetition of the run c, judged against c's OWN filters with run-ignored = ri; order = the exact list order expected, or
    None when a shuffle has happened (any permutation).  None or the first clause that fails."""
    n = len(tests)
    sel = [py_selected(c, t) for t in tests]
    exe = [sel[i] and (not tests[i][2] or bool(ri)) for i in range(n)]
    ign = [sel[i] and bool(tests[i][2]) and not ri for i in range(n)]
    if sorted(r["order"]) != list(range(n)):
        return "order is not a permutation: a test lost or duplicated"
    if order is not None and r["order"] != order:
        return "order is a permutation but not the order the reversals so far give"
    w = r["word"]
    if len(w) < 2 or w[0][0] != ":S" or w[-1][0] != ":E":
        return "callback word does not start/end with tests started/ended"
    st = "out"
    for e, i in w[1:-1]:
        if st == "out" and e == ":G" and i < n:
            st = "grp"
            g = i
        elif st == "grp" and e == ":s" and i < n:
            if tests[i][0] != tests[g][0]:
                return "a test was started inside the group segment of another group"
            st = ("tst", i)
        elif st == "grp" and e == ":g":
            st = "out"
        elif isinstance(st, tuple) and st[0] == "tst" and e == ":b" and i == st[1]:
            st = ("bdy", i)
        elif isinstance(st, tuple) and e == ":e":
            st = "grp"
        else:
            return "group/test notifications not balanced"
    if st != "out":
        return "group/test notifications not balanced"
    for i in range(n):
        if sum(1 for e in w if e == (":s", i)) != (1 if sel[i] else 0):
            return "selection wrong: a test %s" % ("selected by the filters was not started exactly once" if sel[i] else "not selected by the filters was started")
        if sum(1 for e in w if e == (":b", i)) != (1 if exe[i] else 0):
            return "execution wrong: a test body ran %s" % ("not exactly once" if exe[i] else "although ignored or not selected")
    k = r["cnt"]
    if k[0] != n:
        return "test count differs from the number of registered tests"
    if k[0] != k[1] + k[2] + k[3]:
        return "tests != run + ignored + filtered out"
    if k[1] != sum(exe):
        return "run count wrong"
    if k[2] != sum(ign):
        return "ignored count wrong"
    if k[3] != n - sum(sel):
        return "filtered-out count wrong"
    return None


def diagnose(d, o):
    """the property, clause by clause, judged in Python independently of the extracted spec: None or the first clause that fails.
    Every run of a session is judged against its own filters; of the earlier runs only the list order they left (reversals, a
    shuffle) and whether run-ignored was ever requested enter (that switch may or may not persist: both readings are accepted)."""
    try:
        runs, tot = parse_obs(o)
    except Exception:
        return "malformed observation"
    tests = d["tests"]
    n = len(tests)
    rl = runs_of(d)
    for reps in runs:        # a broken list stops the harness early: report the order, not the missing repetitions
        for r in reps:
            if sorted(r["order"]) != list(range(n)):
                return "order is not a permutation: a test lost or duplicated (%s)" % ("shuffle" if any(c["shuffle"] for c in rl) else "reverse" if any(c["rev"] for c in rl) else "plain")
    if len(runs) != len(rl):
        return "number of runs wrong"
    flipped, shuffled, ri_hist = False, False, False
    for k, (c, reps) in enumerate(zip(rl, runs)):
        tag = "" if k == 0 else "in a later run of the session: "
        if len(reps) != (c["repeat"] if c["list"] == 0 else 0):
            return tag + ("number of repetitions wrong" if c["list"] == 0 else "a listing run ran the tests")
        if c["list"] == 0:
            flipped ^= bool(c["rev"])
            shuffled |= bool(c["shuffle"]) and c["repeat"] >= 1
        order = None if shuffled else (list(range(n)) if flipped else list(range(n - 1, -1, -1)))
        for r in reps:
            bad = judge_rep(tests, c, c["ri"], order, r)
            if bad and ri_hist and not c["ri"]:
                alt = judge_rep(tests, c, 1, order, r)          # the switch an earlier run set may still be on
                if alt is None or bad.startswith("execution wrong") or bad in ("run count wrong", "ignored count wrong"):
                    bad = alt
            if bad:
                return tag + bad
        ri_hist |= bool(c["ri"])
    bodies = [sum(sum(1 for e in r["word"] if e == (":b", i)) for reps in runs for r in reps) for i in range(n)]
    if tot != bodies:
        return "per-test execution counters wrong over the repetitions"
    return None


def signature(s, o):
    if o.startswith("!"):
        return "crash " + o[:60]
    return diagnose(parse(s), o) or "spec false (python judge sees nothing wrong)"


def extra_oracle(s, o, flavour):
    d = parse(s)
    if any(0 in x for t in d["tests"] for x in t[:2]) or any(0 in f[0] for c in runs_of(d) for f in c["gf"] + c["nf"]):
        return None
    return diagnose(d, o)


def shrink(s):
    d = parse(s)

    def fix_rands(e):
        n = max(len(e["tests"]) - 1, 0)
        if e["shuffle"] and e["real"]:
            e["rands"] = libc_stream(e["seed"], n)
        e["more"] = [dict(c, rands=libc_stream(c["seed"], n)) if c["shuffle"] and c["real"] else c for c in e["more"]]
        return e

    def variant(**kw):
        e = dict(d)
        e.update(kw)
        return unparse(fix_rands(e))

    def with_run(k, **kw):
        """the session with run k (0 = first) changed"""
        if k == 0:
            return variant(**{("list_" if a == "list" else a): v for a, v in kw.items() if a != "list"})
        m = list(d["more"])
        m[k - 1] = dict(m[k - 1], **kw)
        return variant(more=m)
    more = d["more"]
    # sessions first: fewer runs
    for k in range(len(more)):
        yield variant(more=more[:k] + more[k + 1:])
    if more and more[0]["list"] == 0:          # drop the first run: the second becomes the first
        f = more[0]
        yield variant(ri=f["ri"], rev=f["rev"], shuffle=f["shuffle"], seed=f["seed"], repeat=f["repeat"], route=f["route"], real=f["real"],
                      gf=f["gf"], nf=f["nf"], rands=f["rands"], more=more[1:])
    n = len(d["tests"])
    chunk = n // 2
    while chunk >= 1:                       # ddmin-like: drop blocks of tests, large blocks first
        for a in range(0, n, chunk):
            yield variant(tests=d["tests"][:a] + d["tests"][a + chunk:])
        chunk //= 2
    rl = runs_of(d)
    for k, c in enumerate(rl):
        for key in ("gf", "nf"):
            for i in range(len(c[key])):
                yield with_run(k, **{key: c[key][:i] + c[key][i + 1:]})
        if c["repeat"] > 1:
            yield with_run(k, repeat=1)
            yield with_run(k, repeat=c["repeat"] - 1)
        if c["route"] != 0:
            yield with_run(k, route=1 if c["route"] == 2 else 0)
        if k > 0 and c["list"]:
            yield with_run(k, list=0)
        if c["shuffle"]:
            yield with_run(k, shuffle=0, rands=[], real=0)
            if c["real"]:
                yield with_run(k, real=0)
            else:
                for i in range(len(c["rands"])):
                    if c["rands"][i] != 0:
                        r = list(c["rands"])
                        r[i] = 0
                        yield with_run(k, rands=r)
                if c["rands"]:
                    yield with_run(k, rands=c["rands"][:-1])
        if c["rev"]:
            yield with_run(k, rev=0)
        if c["ri"]:
            yield with_run(k, ri=0)
    for i, (g, nm, ig) in enumerate(d["tests"]):
        if ig:
            yield variant(tests=d["tests"][:i] + [(g, nm, 0)] + d["tests"][i + 1:])
        if len(g) > 1:
            yield variant(tests=d["tests"][:i] + [(g[:-1], nm, ig)] + d["tests"][i + 1:])
        if len(nm) > 1:
            yield variant(tests=d["tests"][:i] + [(g, nm[:-1], ig)] + d["tests"][i + 1:])


LEVEL_TEXT = ("Machine-checked (Coq) theorems over an executable model of TestRegistry::addTest/runAllTests/endOfGroup/testShouldRun (count, filter, "
              "run, group boundaries), UtestShell::match/shouldRun over TestFilter lists with TestFilter::match on the C13 models of StrStr/StrCmp, "
              "IgnoredUtestShell::runOneTest, the four TestResult counters, UtestShellPointerArray (constructor, swap, Fisher-Yates shuffle, reverse, "
              "relink; bounds-checked indexing) and the reverse / shuffle-per-repetition / repeat loop of CommandLineTestRunner::runAllTests: for "
              "every list, filter lists, flags and rand() stream the counters satisfy tests = run + ignored + filtered = number of tests, every "
              "selected test is started exactly once (its body once unless counted as ignored), selection is the declarative 'some filter of each "
              "given list accepts' with substring = exists pre post / equality / negation, shuffle never indexes outside the array and yields a "
              "permutation, reverse = rev, relink = identity, group notifications are balanced with every test inside a segment of its own group. "
              "Sessions (several CommandLineTestRunner / API runs and listing runs on one registry; the state between runs carries the list order, "
              "the registry's filter fields and the run-ignored switch): every run of every valid session meets the oracle for its OWN "
              "configuration; from ANY state (arbitrary stale filter fields) a test is started exactly once iff the run's own filters select it "
              "(no filter given = every test), for any two histories the same run selects the same tests; after any history the list is a "
              "permutation of the registered tests and the filter fields are the last run's; a listing run runs nothing; the runner that "
              "installs a filter list only when the command line gives one is refuted. "
              "Tied to the code by a differential run of the extracted model against a real TestRegistry (API and argv routes, scripted and real "
              "rand()), with the extracted model-free spec and an independent Python judge evaluating the implementation's observation.")
LEVEL_NOTE = ("Trusted: Coq kernel, extraction, harness, generator. Modelled not verified: the C++ itself; the singly linked list is the Coq list it "
              "denotes (cons = addTest), so aliasing effects of relinking are seen only by the harness (list walk bounded by the number of tests). "
              "The platform's rand() is scenario input (the stream libc gives for the seed is computed by the generator and compared with the calls "
              "the harness records). Exact shuffled order and the srand/rand calls are compared model-vs-implementation but not demanded by the "
              "oracle (any permutation satisfies the property). Translation of argv into filter lists is C12's subject; here argv is only a route. "
              "CommandLineTestRunner::initializeTestRun is modelled by hand (`install`); what a listing run prints is not observed.")
TECHNIQUE = "Coq proof over hand-written executable model + extracted-model/implementation correspondence check (differential, exhaustive small shuffles and filter grid)"
READY = True
