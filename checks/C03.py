"""C03 -- each check macro fails exactly when the predicate it names is false, and is counted once.
Scenario:  <text 0|1> <MACRO> operands...      (text=1: the _TEXT variant of the macro is used)
  two-operand integer checks   <MACRO> <ta> <za> <tb> <zb>         ta,tb in 0..9 = schar uchar short ushort int uint long ulong llong ullong
  CHECK CHECK_TRUE CHECK_FALSE CHECK_C CHECK_EQUAL_ZERO   <t> <z>
  CHECK_COMPARE <op 0..5: < <= > >= == !=> <ta> <za> <tb> <zb>
  ENUMS_EQUAL_INT <t> <za> <zb>      ENUMS_EQUAL_TYPE <u> <t> <za> <zb>   (both operands of type t, underlying type u)
  POINTERS_EQUAL FUNCTIONPOINTERS_EQUAL CHECK_EQUAL_C_POINTER  <addr> <addr>
  DOUBLES_EQUAL CHECK_EQUAL_C_REAL  <bits expected> <bits actual> <bits tolerance>
  STRCMP_EQUAL STRCMP_NOCASE_EQUAL STRCMP_CONTAINS STRCMP_NOCASE_CONTAINS CHECK_EQUAL_C_STRING  <bytes|~> <bytes|~>     STRNCMP_EQUAL <e> <a> <n>
  MEMCMP_EQUAL CHECK_EQUAL_C_MEMCMP <bytes|~> <bytes|~> <n>
  BITS_EQUAL CHECK_EQUAL_C_BITS <te> <ze> <ta> <za> <mask>
  CHECK_THROWS <0 nothing | 1 expected type | 2 other type>        FAIL FAIL_TEST FAIL_C FAIL_TEXT_C
  operand EXPRESSIONS WITH SIDE EFFECTS (both of type t; script = <count >= 1> value... = what the 1st, 2nd, ... evaluation yields, the last repeats):
  SE_CHECK_EQUAL <t> <script expected> <script actual>    SE_CHECK_EQUAL_ZERO <t> <script actual>    SE_CHECK_COMPARE <op> <t> <script first> <script second>
Observation: <failures> <checks counted> <statement after the check executed 0|1>
  (SE_ kinds: + <evaluations of the first operand expression> <of the second>; compared with the model, not read by the oracle)"""
import itertools, struct
from vlib import tz, tb
ID = "C03"
FLAVOURS = ["asan"]
HARNESS_SRCS = ["harness/C03.cpp", "harness/C03_c.c"]
HARNESS_FLAGS = {"asan": ("-O0", "-g0")}      # ~1200 macro expansions in templates: keeps the harness compile below 10 s
RULE = ("per macro: operand type pairs (10 integer types) x boundary lattice {min,min+1,-2^31-1..-2^31+1,-129..-127,-1,0,1,127..129,255..257,"
        "2^31-1..2^31+1,2^32-1..2^32+1,2^63-1,2^63,2^64-1} with the second operand equal / +-1 / congruent modulo 2^8,2^16,2^32,2^64 "
        "(the cast boundaries); doubles: all pairs of the class representatives x tolerances + pairs whose difference is at, one ulp below "
        "and above the tolerance; strings over NULL/empty/case pairs/high bytes/embedded NUL x lengths 0..len+2 and SIZE_MAX; memory blocks "
        "with the first difference at every position, NULL x length 0; masks x byte counts. Operand expressions with side effects "
        "(CHECK_EQUAL / _TEXT / _ZERO, CHECK_COMPARE x 6 operators, 10 types): scripts over two neighbouring lattice values where one or both "
        "operands change at the 2nd..5th evaluation -- first comparison unequal and every later one equal, first equal and later unequal, "
        "crossing, constant -- plus random scripts of length 1..6 over three values. quick samples the lattice products, thorough "
        "enumerates them. non-trivial = any check whose outcome depends on its operands (everything except FAIL*)")
ASSUMPTIONS = ["LP64 data model, plain char signed (x86-64 g++)", "operands are in range of their declared C type",
               "memory blocks are at least as long as the length given to the check (the caller's contract)",
               "strings free of backslash bytes in the generated set (failure-text defect D12 belongs to C14)"]
PER_TIMEOUT = 30.0

TY = ["schar", "uchar", "short", "ushort", "int", "uint", "long", "ulong", "llong", "ullong"]
W = [8, 8, 16, 16, 32, 32, 64, 64, 64, 64]
SG = [True, False, True, False, True, False, True, False, True, False]
LO = [-(1 << (w - 1)) if s else 0 for w, s in zip(W, SG)]
HI = [(1 << (w - 1)) - 1 if s else (1 << w) - 1 for w, s in zip(W, SG)]
BASE = [-(1 << 63), -(1 << 63) + 1, -(1 << 32) - 1, -(1 << 32), -(1 << 31) - 1, -(1 << 31), -(1 << 31) + 1, -32769, -32768, -32767, -257, -256, -255,
        -129, -128, -127, -2, -1, 0, 1, 2, 127, 128, 129, 255, 256, 257, 32767, 32768, 65535, 65536, (1 << 31) - 1, 1 << 31, (1 << 31) + 1,
        (1 << 32) - 1, 1 << 32, (1 << 32) + 1, (1 << 63) - 1, 1 << 63, (1 << 63) + 1, (1 << 64) - 2, (1 << 64) - 1]
LAT = [[z for z in BASE if LO[t] <= z <= HI[t]] for t in range(10)]
K2_CPP = ["CHECK_EQUAL", "LONGS_EQUAL", "UNSIGNED_LONGS_EQUAL", "LONGLONGS_EQUAL", "UNSIGNED_LONGLONGS_EQUAL", "BYTES_EQUAL", "SIGNED_BYTES_EQUAL"]
K2_C = ["CHECK_EQUAL_C_BOOL", "CHECK_EQUAL_C_INT", "CHECK_EQUAL_C_UINT", "CHECK_EQUAL_C_LONG", "CHECK_EQUAL_C_ULONG", "CHECK_EQUAL_C_LONGLONG",
        "CHECK_EQUAL_C_ULONGLONG", "CHECK_EQUAL_C_CHAR", "CHECK_EQUAL_C_UBYTE", "CHECK_EQUAL_C_SBYTE"]
K1 = ["CHECK", "CHECK_TRUE", "CHECK_FALSE", "CHECK_C", "CHECK_EQUAL_ZERO"]
NOTEXT = {"CHECK_THROWS", "FAIL", "FAIL_TEST", "FAIL_C", "FAIL_TEXT_C", "ENUMS_EQUAL_INT", "ENUMS_EQUAL_TYPE"}
SHIFTS = [0, 0, 1, -1, 1 << 7, 1 << 8, 1 << 15, 1 << 16, 1 << 31, 1 << 32, 1 << 63, 1 << 64]


def aliases(x, t):
    """values of type t equal to x, next to x, or congruent to x modulo a cast boundary"""
    out = set()
    for s in SHIFTS:
        for y in (x + s, x - s):
            if LO[t] <= y <= HI[t]:
                out.add(y)
    return sorted(out)


def wide(ta, tb):
    return ta == tb or (ta >= 4 and tb >= 4)


def d2b(x):
    return struct.unpack("<Q", struct.pack("<d", x))[0]


def b2d(b):
    return struct.unpack("<d", struct.pack("<Q", b))[0]


INF, NINF, NAN1, NAN2 = 0x7ff0000000000000, 0xfff0000000000000, 0x7ff8000000000000, 0xfff0000000000001
DVALS = [0x0, 0x8000000000000000, 0x1, 0x8000000000000001, 0x0010000000000000, 0x8010000000000000, 0x3ff0000000000000, 0xbff0000000000000,
         0x3ff0000000000001, 0x3fefffffffffffff, 0x4000000000000000, 0x7fefffffffffffff, 0xffefffffffffffff, INF, NINF, NAN1, NAN2,
         0x3fe0000000000000, 0x4008000000000000]
DTOLS = [0xbff0000000000000, 0x8000000000000000, 0x0, 0x1, 0x3cb0000000000000, 0x3fe0000000000000, 0x3ff0000000000000, 0x7fefffffffffffff, INF, NINF, NAN1]
STRS = [None, b"", b"a", b"A", b"ab", b"aB", b"AB", b"abc", b"abd", b"ab\x00c", b"\x00ab", b"\x80", b"\xff\x80", b"\xe9", b"\xc9", b"xaby", b"xABy", b"b", b"@[`{", b"@{`[",
        b"Zz", b"zZ", b"aab", b"aaab", b"abcabd", b"The quick brown fox jumps over the lazy dog", b"THE QUICK BROWN FOX JUMPS OVER THE LAZY DOG", b"lazy", b"LAZY d"]
MASKS = [0, 1, 2, 0x80, 0xff, 0x100, 0xff00, 0x8000, 0xffff, 0x10000, 1 << 31, (1 << 32) - 1, 1 << 32, 1 << 63, (1 << 64) - 1, 0xf0f0f0f0f0f0f0f0]


def op(t, z):
    return "%x %s" % (t, tz(z))


def txt(rng, kind, same=True):
    if kind in NOTEXT or not same:
        return "0"
    return "1" if rng.random() < 0.25 else "0"


def gen_k2(out, rng, per_pair, kinds_cpp=K2_CPP, kinds_c=K2_C):
    for k in kinds_cpp + kinds_c:
        isc = k in kinds_c
        for ta in range(10):
            for tb in range(10):
                cases = []
                if per_pair is None:
                    for x in LAT[ta]:
                        for y in aliases(x, tb):
                            cases.append((x, y))
                else:
                    for _ in range(per_pair):
                        x = rng.choice(LAT[ta])
                        al = aliases(x, tb)
                        y = rng.choice(al) if al and rng.random() < 0.85 else rng.choice(LAT[tb])
                        cases.append((x, y))
                for x, y in cases:
                    out.append("%s %s %s %s" % (txt(rng, k, isc or ta == tb), k, op(ta, x), op(tb, y)))


def gen_cmp(out, rng, per_pair):
    for o in range(6):
        for ta in range(10):
            for tb in range(10):
                if not wide(ta, tb):
                    continue
                cases = []
                if per_pair is None:
                    for x in LAT[ta]:
                        for y in aliases(x, tb):
                            cases.append((x, y))
                else:
                    for _ in range(per_pair):
                        x = rng.choice(LAT[ta])
                        al = aliases(x, tb)
                        cases.append((x, rng.choice(al) if al and rng.random() < 0.8 else rng.choice(LAT[tb])))
                for x, y in cases:
                    out.append("%s CHECK_COMPARE %x %s %s" % (txt(rng, "CHECK_COMPARE", ta == tb), o, op(ta, x), op(tb, y)))


def gen_k1(out, rng):
    for k in K1:
        for t in range(10):
            for z in LAT[t]:
                out.append("%s %s %s" % (txt(rng, k), k, op(t, z)))


def gen_enums(out, rng, n):
    for t in range(10):
        for x in LAT[t]:
            for y in aliases(x, t)[:: (1 if n is None else 3)]:
                out.append("0 ENUMS_EQUAL_INT %s %s" % (op(t, x), tz(y)))
        for u in range(10):
            xs = LAT[t] if n is None else [rng.choice(LAT[t]) for _ in range(n)]
            for x in xs:
                al = aliases(x, t)
                ys = al if n is None else [rng.choice(al)]
                for y in ys:
                    out.append("0 ENUMS_EQUAL_TYPE %x %s %s" % (u, op(t, x), tz(y)))


def gen_ptr(out, rng):
    A = [0, 1, 0x1000, 0x1008, 1 << 32, (1 << 32) + 0x1000, (1 << 63), (1 << 64) - 1]
    for k in ("POINTERS_EQUAL", "FUNCTIONPOINTERS_EQUAL", "CHECK_EQUAL_C_POINTER"):
        for a in A:
            for b in A:
                out.append("%s %s %x %x" % (txt(rng, k), k, a, b))


def ulp_step(b, k):
    """the double k steps away from the finite double with pattern b (ordered by value)"""
    neg = b >> 63
    m = b & ((1 << 63) - 1)
    v = -m if neg else m
    v += k
    if v < 0:
        return (1 << 63) | (-v)
    return v


def gen_dbl(out, rng, tier):
    for k in ("DOUBLES_EQUAL", "CHECK_EQUAL_C_REAL"):
        vals = DVALS if k == "DOUBLES_EQUAL" or tier == "thorough" else DVALS[::2] + [INF, NINF]
        for d1 in vals:
            for d2 in vals:
                for t in DTOLS:
                    out.append("%s %s %x %x %x" % (txt(rng, k), k, d1, d2, t))
        # difference exactly at / one ulp around the tolerance
        base = [1.0, 0.1, 1e-300, 1e300, 3.0, -2.5, 123456.789, 5e-324, 2.2250738585072014e-308]
        tols = [0.5, 1.0, 0.1, 1e-10, 1e290, 5e-324, 1e-308, 0.0]
        for x in base:
            for t in tols:
                y = x + t
                if y in (float("inf"), float("-inf")):
                    continue
                for dy in (-2, -1, 0, 1, 2):
                    for dt in (-1, 0, 1):
                        tb_ = d2b(t)
                        if tb_ == 0 and dt < 0:
                            continue
                        out.append("%s %s %x %x %x" % (txt(rng, k), k, d2b(x), ulp_step(d2b(y), dy), ulp_step(tb_, dt)))
                        out.append("%s %s %x %x %x" % (txt(rng, k), k, ulp_step(d2b(y), dy), d2b(x), ulp_step(tb_, dt)))
    n = 300 if tier == "quick" else 40000
    for _ in range(n):
        d1 = rng.choice(DVALS) if rng.random() < 0.3 else rng.getrandbits(64)
        c = rng.random()
        if c < 0.3:
            d2 = d1
        elif c < 0.6 and (d1 & 0x7ff0000000000000) != 0x7ff0000000000000:
            d2 = ulp_step(d1, rng.randrange(-3, 4)) & ((1 << 64) - 1)
        else:
            d2 = rng.choice(DVALS) if rng.random() < 0.5 else rng.getrandbits(64)
        t = rng.choice(DTOLS) if rng.random() < 0.5 else rng.getrandbits(63)
        k = rng.choice(("DOUBLES_EQUAL", "CHECK_EQUAL_C_REAL"))
        out.append("%s %s %x %x %x" % (txt(rng, k), k, d1, d2, t))


def gen_str(out, rng, tier):
    for k in ("STRCMP_EQUAL", "STRCMP_NOCASE_EQUAL", "STRCMP_CONTAINS", "STRCMP_NOCASE_CONTAINS", "CHECK_EQUAL_C_STRING"):
        for e in STRS:
            for a in STRS:
                out.append("%s %s %s %s" % (txt(rng, k), k, tb(e), tb(a)))
    for e in STRS:
        for a in STRS:
            le = len((e or b"").split(b"\x00")[0])
            la = len((a or b"").split(b"\x00")[0])
            ns = set([0, 1, 2, 3, min(le, la), min(le, la) + 1, max(le, la), max(le, la) + 1, max(le, la) + 2, (1 << 64) - 1])
            # the position of the first difference and its neighbours
            if e is not None and a is not None:
                i = 0
                while i < min(len(e), len(a)) and e[i] == a[i]:
                    i += 1
                ns |= {i, i + 1, max(i - 1, 0)}
            if tier == "quick":
                ns = set(rng.sample(sorted(ns), min(4, len(ns))))
            for n in sorted(ns):
                out.append("%s STRNCMP_EQUAL %s %s %x" % (txt(rng, "STRNCMP_EQUAL"), tb(e), tb(a), n))
    # full byte range: every byte against its case partner (c ^ 0x20) and its sign partner (c ^ 0x80); only A-Z / a-z fold
    for c in range(1, 256):
        for d in (c ^ 0x20, c ^ 0x80):
            if 0x5c in (c, d) or d == 0:
                continue
            x, y = bytes([c]), bytes([d])
            out.append("0 STRCMP_NOCASE_EQUAL %s %s" % (tb(x), tb(y)))
            out.append("0 STRCMP_NOCASE_CONTAINS %s %s" % (tb(x), tb(b"<" + y + b">")))
            out.append("0 STRCMP_EQUAL %s %s" % (tb(x), tb(y)))
            out.append("0 STRCMP_CONTAINS %s %s" % (tb(x), tb(b"<" + y + b">")))
            out.append("0 STRNCMP_EQUAL %s %s 2" % (tb(b"=" + x), tb(b"=" + y)))
            out.append("0 MEMCMP_EQUAL %s %s 1" % (tb(x), tb(y)))
    # random strings over a small alphabet (many substrings / case pairs), no backslash
    alpha = b"aAbBzZ@[`{\x80\xe1\xc1 \x01"
    n = 400 if tier == "quick" else 40000
    for _ in range(n):
        e = bytes(rng.choice(alpha) for _ in range(rng.randrange(0, 5)))
        c = rng.random()
        if c < 0.4:
            a = bytes(rng.choice(alpha) for _ in range(rng.randrange(0, 3))) + e + bytes(rng.choice(alpha) for _ in range(rng.randrange(0, 3)))
        elif c < 0.6:
            a = e.swapcase()
        else:
            a = bytes(rng.choice(alpha) for _ in range(rng.randrange(0, 7)))
        if rng.random() < 0.3:
            e, a = a, e
        k = rng.choice(("STRCMP_EQUAL", "STRCMP_NOCASE_EQUAL", "STRCMP_CONTAINS", "STRCMP_NOCASE_CONTAINS", "CHECK_EQUAL_C_STRING", "STRNCMP_EQUAL"))
        if k == "STRNCMP_EQUAL":
            out.append("%s %s %s %s %x" % (txt(rng, k), k, tb(e), tb(a), rng.randrange(0, 8)))
        else:
            out.append("%s %s %s %s" % (txt(rng, k), k, tb(e), tb(a)))


def gen_mem(out, rng, tier):
    for k in ("MEMCMP_EQUAL", "CHECK_EQUAL_C_MEMCMP"):
        for e in (None, b"", b"ab"):
            for a in (None, b"", b"ab", b"ac"):
                for n in (0, 1, 2):
                    if (e is None or n <= len(e)) and (a is None or n <= len(a)):
                        out.append("%s %s %s %s %x" % (txt(rng, k), k, tb(e), tb(a), n))
        lens = (1, 2, 5, 9) if tier == "quick" else (1, 2, 3, 5, 8, 9, 16, 33)
        for ln in lens:
            blk = bytes((37 * i + 11) & 0xff for i in range(ln))
            for pos in range(ln):
                other = bytearray(blk)
                other[pos] ^= 0x80 if pos % 2 else 0x01
                other = bytes(other)
                for n in sorted(set([0, pos, pos + 1, ln])):
                    out.append("%s %s %s %s %x" % (txt(rng, k), k, tb(blk), tb(other), n))
                    out.append("%s %s %s %s %x" % (txt(rng, k), k, tb(other), tb(blk + b"\x00"), n))
            out.append("0 %s %s %s %x" % (k, tb(blk), tb(blk), ln))
            out.append("0 %s %s %s %x" % (k, tb(blk + b"\x00\x01"), tb(blk + b"\x00\x02"), ln + 1))
            out.append("0 %s %s %s %x" % (k, tb(blk + b"\x00\x01"), tb(blk + b"\x00\x02"), ln + 2))


def gen_bits(out, rng, n):
    for k in ("BITS_EQUAL", "CHECK_EQUAL_C_BITS"):
        for te in range(10):
            for ta in range(10):
                ms = MASKS if n is None else rng.sample(MASKS, n)
                for m in ms:
                    x = rng.choice(LAT[te])
                    ys = set(aliases(x, ta)[:4])
                    for b in (0, 7, 8, 31, 32, 63):
                        y = x ^ (1 << b)
                        if LO[ta] <= y <= HI[ta]:
                            ys.add(y)
                    if LO[ta] <= x <= HI[ta]:
                        ys.add(x)
                    ys = sorted(ys) if n is None else rng.sample(sorted(ys), min(2, len(ys)))
                    for y in ys:
                        out.append("%s %s %s %s %x" % (txt(rng, k, k != "BITS_EQUAL" or True), k, op(te, x), op(ta, y), m))


def se_line(text, kind, t, se, sa, o=None):
    sc = lambda v: "%x %s" % (len(v), " ".join(tz(z) for z in v))
    if kind == "SE_CHECK_EQUAL_ZERO":
        return "%s %s %x %s" % (text, kind, t, sc(sa))
    if kind == "SE_CHECK_COMPARE":
        return "%s %s %x %x %s %s" % (text, kind, o, t, sc(se), sc(sa))
    return "%s %s %x %s %s" % (text, kind, t, sc(se), sc(sa))


def se_parse(s):
    """-> (text, kind, op|None, t, script_e|None, script_a)"""
    t = s.split()
    k = t[1]
    i = 2
    o = None
    if k == "SE_CHECK_COMPARE":
        o = int(t[i], 16)
        i += 1
    ty = int(t[i], 16)
    i += 1

    def sc(i):
        n = int(t[i], 16)
        return [int(x, 16) for x in t[i + 1:i + 1 + n]], i + 1 + n
    se = None
    if k != "SE_CHECK_EQUAL_ZERO":
        se, i = sc(i)
    sa, i = sc(i)
    return t[0], k, o, ty, se, sa


def gen_se(out, rng, tier):
    """operands whose value changes between evaluations: the verdict belongs to the FIRST comparison"""
    kinds = [("SE_CHECK_EQUAL", None), ("SE_CHECK_EQUAL_ZERO", None)] + [("SE_CHECK_COMPARE", o) for o in range(6)]
    for kind, o in kinds:
        for t in range(10):
            pairs = []
            if kind == "SE_CHECK_EQUAL_ZERO":
                pairs = [(0, v) for v in ([1, HI[t]] + ([-1, LO[t]] if SG[t] else []))]
            else:
                us = LAT[t] if tier == "thorough" else rng.sample(LAT[t], 2)
                for u in us:
                    vs = [v for v in aliases(u, t) if v != u]
                    pairs.append((u, rng.choice(vs)))
            for u, v in pairs:
                cases = [([u], [u]), ([u], [v]), ([u, v], [v, u]), ([u, v], [u, u, v]), ([u, u, v], [v, u]), ([v, u], [u])]
                for j in (1, 2, 3, 4):
                    cases.append(([u], [v] * j + [u]))        # unequal for the first j comparisons of actual, equal afterwards
                    cases.append(([u], [u] * j + [v]))        # equal first, unequal later
                    cases.append(([v] * j + [u], [u]))        # the same with the first operand changing
                    cases.append(([u] * j + [v], [u]))
                w = rng.choice(LAT[t])
                for _ in range(3 if tier == "quick" else 12):
                    cases.append(([rng.choice((u, v, w)) for _ in range(rng.randrange(1, 7))], [rng.choice((u, v, w)) for _ in range(rng.randrange(1, 7))]))
                for se, sa in cases:
                    if kind == "SE_CHECK_EQUAL_ZERO" and se != [u] and sa == [u]:
                        continue                               # the first operand is the literal 0
                    out.append(se_line("1" if rng.random() < 0.3 else "0", kind, t, se, sa, o))


def generate(tier, rng):
    out = []
    gen_se(out, rng, tier)
    for w in (0, 1, 2):
        out.append("0 CHECK_THROWS %x" % w)
    for k in ("FAIL", "FAIL_TEST", "FAIL_C", "FAIL_TEXT_C"):
        out.append("0 " + k)
    gen_k1(out, rng)
    gen_ptr(out, rng)
    if tier == "quick":
        gen_k2(out, rng, 6)
        gen_cmp(out, rng, 6)
        gen_enums(out, rng, 3)
        gen_bits(out, rng, 3)
    else:
        gen_k2(out, rng, None)
        gen_cmp(out, rng, None)
        gen_enums(out, rng, None)
        gen_bits(out, rng, None)
        gen_k2(out, rng, 30)
    gen_dbl(out, rng, tier)
    gen_str(out, rng, tier)
    gen_mem(out, rng, tier)
    return out


def nontrivial(s):
    return not s.split()[1].startswith("FAIL")


def classify(s):
    t = s.split()
    if t[1].startswith("SE_"):
        text, k, o, ty, se, sa = se_parse(s)
        se = se or [0]
        n = max(len(se), len(sa), 5)
        rd = lambda v, i: v[i] if i < len(v) else v[-1]
        cmp_ = (lambda a, b: a == b) if o is None else [lambda a, b: a < b, lambda a, b: a <= b, lambda a, b: a > b, lambda a, b: a >= b, lambda a, b: a == b, lambda a, b: a != b][o]
        first = cmp_(se[0], sa[0])
        later = set(cmp_(rd(se, i), rd(sa, i)) for i in range(1, n))
        return [k + ("_TEXT" if text == "1" else ""), "side effects: first comparison %s, later comparisons %s" %
                ("holds" if first else "false", "the same" if later <= {first} else ("all opposite" if later == {not first} else "mixed"))]
    labels = [t[1] + ("_TEXT" if t[0] == "1" else "")]
    if t[1] in K2_CPP + K2_C or t[1] == "CHECK_COMPARE":
        o = 3 if t[1] == "CHECK_COMPARE" else 2
        labels.append("operand types %s,%s" % (TY[int(t[o], 16)], TY[int(t[o + 2], 16)]))
    return labels


def signature(s, o):
    t = s.split()
    k = t[1]
    if k.startswith("SE_"):
        _, k, op, ty, se, sa = se_parse(s)
        return "%s%s operand type %s (operand expressions with side effects)" % (k, "" if op is None else " op %x" % op, TY[ty])
    if k in K2_CPP + K2_C:
        return "%s operand types %s,%s" % (k, TY[int(t[2], 16)], TY[int(t[4], 16)])
    if k == "CHECK_COMPARE":
        return "%s op %s operand types %s,%s" % (k, t[2], TY[int(t[3], 16)], TY[int(t[5], 16)])
    if k in ("BITS_EQUAL", "CHECK_EQUAL_C_BITS"):
        return "%s operand types %s,%s" % (k, TY[int(t[2], 16)], TY[int(t[4], 16)])
    if k in ("DOUBLES_EQUAL", "CHECK_EQUAL_C_REAL"):
        def cls(b):
            b = int(b, 16)
            e = (b >> 52) & 0x7ff
            if e == 0x7ff:
                return ("nan" if b & ((1 << 52) - 1) else ("-inf" if b >> 63 else "+inf"))
            return "finite"
        return "%s %s,%s tol %s" % (k, cls(t[2]), cls(t[3]), cls(t[4]))
    return k


def shrink(s):
    t = s.split()
    k = t[1]
    if k.startswith("SE_"):
        text, k, op, ty, se, sa = se_parse(s)
        if text == "1":
            yield se_line("0", k, ty, se, sa, op)
        for which in (0, 1):
            v = (se, sa)[which]
            if v is None:
                continue
            for j in range(len(v) - 1, -1, -1):          # drop one evaluation's value
                if len(v) > 1:
                    w = v[:j] + v[j + 1:]
                    yield se_line(text, k, ty, w if which == 0 else se, w if which == 1 else sa, op)
            for j in range(len(v)):                       # smaller values
                for small in (0, 1):
                    if v[j] != small and abs(v[j]) > small:
                        w = v[:j] + [small] + v[j + 1:]
                        yield se_line(text, k, ty, w if which == 0 else se, w if which == 1 else sa, op)
        for x in sorted(set((se or []) + sa), key=abs, reverse=True):      # one value renamed everywhere
            for small in (0, 1, 2):
                if abs(x) > small and LO[ty] <= small <= HI[ty]:
                    rn = lambda v: None if v is None else [small if z == x else z for z in v]
                    yield se_line(text, k, ty, rn(se), rn(sa), op)
        if ty != 4:
            if all(LO[4] <= z <= HI[4] for z in (se or []) + sa):
                yield se_line(text, k, 4, se, sa, op)
        return
    if k in ("STRCMP_EQUAL", "STRCMP_NOCASE_EQUAL", "STRCMP_CONTAINS", "STRCMP_NOCASE_CONTAINS", "CHECK_EQUAL_C_STRING", "STRNCMP_EQUAL"):
        for i in (2, 3):
            if t[i].startswith("$"):
                b = bytes.fromhex(t[i][1:])
                for j in range(len(b)):
                    yield " ".join(t[:i] + [tb(b[:j] + b[j + 1:])] + t[i + 1:])
    if t[0] == "1":
        yield " ".join(["0"] + t[1:])


LEVEL_TEXT = ("Machine-checked (Coq) theorems over an executable model of every check macro of UtestMacros.h / TestHarness_c.h (with the casts and "
              "usual arithmetic conversions each expansion applies), of the UtestShell::assert* functions, of StrCmp/StrNCmp/StrStr/MemCmp and of "
              "doubles_equal over Flocq binary64: a check fails iff the named predicate is false (integers after the documented cast, strings by "
              "content with NULL rules, blocks with the zero-length rule, masked bits, doubles with NaN/infinity/tolerance rules proved against the "
              "reals), counted exactly once except a passing CHECK_COMPARE. Tied to the code by running the real macros (C++ and C translation "
              "units) inside a fixture on an exhaustive boundary lattice and comparing failure count / check count / continuation with the "
              "extracted model and the extracted model-free spec. Operand expressions with side effects (scripts of the values successive "
              "evaluations yield) in the macros that read an operand more than once (CHECK_EQUAL family, CHECK_COMPARE): the model follows the "
              "macro's evaluation order; proved: the verdict is that of the first comparison whatever later reads give; the harness passes "
              "operands that pop a scripted queue and also compares the number of evaluations with the model.")
LEVEL_NOTE = ("Trusted: Coq kernel, extraction (ExtrOcamlBasic), harness and generators, LP64 with signed plain char. Modelled not verified: the C++ "
              "and the preprocessor expansions themselves; CHECK_EQUAL is modelled for integer operands only (user types with their own operator!= "
              "are outside the model); failure texts are C14's subject. Flocq brings the stdlib axioms classic, functional_extensionality_dep, "
              "sig_forall_dec, sig_not_dec (named by Print Assumptions in the evidence).")
TECHNIQUE = "Coq proof over hand-written executable model + extracted-model/implementation correspondence check (differential, boundary lattice per width/sign)"
READY = True
