"""C13 -- string operations equal their textbook meaning and are memory-safe.
Scenario: one operation with its arguments (byte strings never contain NUL; they are handed to the code as C strings in
exact-size heap blocks):
  :strlen a | :strcmp a b | :strncmp a b n | :strstr a b | :memcmp a b n | :contains a b | :containsnc a b | :starts a b | :ends a b
  :count a b | :eq a b | :eqnc a b | :find a ch | :findfrom a start ch | :substr a begin amount | :substr1 a begin | :lower a
  :replc a c1 c2 | :ordinal n | ... (second group, see GROUP2) | :atoi a | :atou a
  life-cycle group (GROUP4; every scenario -- also the ones above -- runs inside ONE recorded window of the string allocator in which
  all its objects are constructed and destroyed):
  :repeat a k | :pad a b ch | :split a delimiter-char | :fromtill a c1 c2 | :masked value mask bytecount | :binary bytes
  :seq n op_1 .. op_n      operations applied one after the other to the same four objects, which are destroyed at the end: obj[0..2] are
      named objects, obj[3] is the RESULT OBJECT R = the very object an operation returned (constructed directly from the returned
      value: no copy, no assignment in between), consumed in place by the following steps (i, j, k in 0..3):
      :set i a | :asg i j | :app i j | :appc i a | :low i j | :sub i j begin amount | :rc i c1 c2 | :rs i from to | :prt i j
      :pad i j ch | :fmt i a b | :rep i a k | :plus i j k                              (results ASSIGNED to obj[i])
      :rnew a | :rcopy j | :rsub j begin amount | :rsub1 j begin | :rft j c1 c2 | :rlow j | :rprt j | :rplus j k | :rfmt a b | :rrep a k
      :rord n | :rmask value mask bytecount | :rbin bytes | :rsplit j delimiter-char k    (R = the returned object / element k of the collection)
      :size i | :at i pos | :cmp i j | :cpb i n | :find i start ch                      (observers: one log entry each)
      value = the four strings at the end, then the log entries (sizes as 8 bytes little-endian, truth values as one byte).
  :col n op_1 .. op_n      ONE SimpleStringCollection through a history of steps (it is destroyed at the end, inside the recorded window):
      :sp text delimiter   SimpleString(text).split(SimpleString(delimiter), col) -- the delimiter is a byte string of ANY length (empty, one byte, longer)
      :al n                col.allocate(n)
      :put i text          col[i] = SimpleString(text), i any size_t (outside the range the collection's spare element is written: lost)
      :sz | :get i | :snap observers: size() / col[i] for any size_t i / size(), every element and the element behind the last one
      value = the log of the observers, then the collection as it is at the end (as :snap).
  :als text n op_1 .. op_n  ALIASING: ONE object s = SimpleString(text) through statements whose argument points into s's OWN buffer, written in the
      harness exactly as user code writes them (k, k1, k2 = offsets 0 .. size(), the terminator included):
      :asgp k  s = s.asCharString() + k | :asgs  s = s | :ctor k  SimpleString t(s.asCharString() + k); s = t | :appp k  s += s.asCharString() + k
      :apps  s += s | :repl k1 k2  s.replace(s.asCharString() + k1, s.asCharString() + k2)
      observers: :cmpp k (==, contains, startsWith, endsWith, count of a pointer into itself) | :cmps (the same with s itself)
      :sstr k1 k2 / :scmp k1 k2 (StrStr / StrCmp with both arguments inside the one buffer). value = s at the end, then the observers' log.
Observation: <value> <independent reference (std::string/libc) agrees> <every buffer returned once with its size>."""
import itertools
from vlib import tz, tb
ID = "C13"
FLAVOURS = ["asan"]
HARNESS_SRCS = ["harness/C13.cpp"]
CRASH_IS_VIOLATION = True
PER_TIMEOUT = 20.0
NPOS = (1 << 64) - 1
RULE = ("per operation: exhaustive over strings of length 0..4 over {a,b} x patterns of length 0..3 (all self-overlapping patterns "
        "aa, aba, abab, empty pattern, pattern longer than the string), strings over the alphabet {a,b,A,B,.,blank,\\n,\\t,0x01,0x7f,0x80,0xff,digits} "
        "of length 0..12 and 100..5000, every position/amount in -1..len+2 plus SIZE_MAX and 2^63, characters incl. the alphabet, 0 and absent ones, "
        "caller buffers of size 0,1,len,len+1,len+2; EVERY byte value 1..255 at every place a character predicate (isSpace, isDigit, isUpper, isControl, "
        "short-escape, ToLower) looks at it: AtoI/AtoU on [c,7], [7,c,3], [blank,c,7], [sign,c,5], lowerCase/printable of [c], equalsNoCase/containsNoCase of c against "
        "c^0x20; AtoI/AtoU on sign/blank/digit boundary strings (empty, lone and double signs, every C blank, 0x08/0x0E, '/' and ':', leading zeros, 9 digits, "
        "INT_MAX, UINT_MAX) and random blank-sign-digits-junk strings whose digit run fits the result type; "
        "life cycle (allocation pairing incl. the objects alive at the end): padStringsToSameLength exhaustively over strings of length 0..3 plus lengths "
        "around the string-cache classes (31..33, 63..65, 100, 128), repeat-constructor, split into a collection, subStringFromTill, bit and binary "
        "formatters; operation SEQUENCES on three shared objects: every ordered pair (producer of a buffer, operation that releases it) over the 13 "
        "sequence operations on the same object at three sizes (padding followed by +=, by a second padding, by assignment, by destruction, ...), "
        "and random sequences of 1..8 (quick) / 1..20 (thorough) operations over all 32 steps and four objects; "
        "CHAINS on the returned object: every producer of an object (constructor, empty and default constructor, copy, subString with 13 begin/amount shapes -- truncating to "
        "n/2, 1, 0 bytes, by one byte, inner, exact, amount past the end, npos, begin at / past the end --, subString(begin), a second subString of the result, "
        "subStringFromTill with the end character found / not found / equal to the start / NUL, lowerCase, printable, operator+, StringFromFormat on both paths, "
        "repeat, ordinal / masked-bit / binary formatters, replace(str, str) growing / shrinking / to empty / without match, replace(char, char), padded as str1 / str2 / "
        "not padded, every element of a split collection incl. the last piece and the out-of-range element) constructed DIRECTLY from the returned value, followed by "
        "every in-place consumer (+= char* / SimpleString / itself / empty, replace(char, char), replace(str, str) with and without a match, copyToBuffer with 8 buffer "
        "sizes around the length, at() at 7 positions up to the terminator, size / isEmpty, == / != / contains / startsWith / endsWith / count in both directions and "
        "against itself, findFrom incl. NUL, a second subString past the new end, subStringFromTill, split, copy, assignment, lowerCase, printable, +, padding both "
        "ways) and then size, one more +=, a copy and a comparison -- at two (quick) / six (thorough) length scales; the red-team shape exhaustively on short "
        "strings (begin 0..5 x amounts around the remaining length x four tails, directly / through a copy / through an assignment); random chains; "
        "the COLLECTION as an object with a history (:col): one split on a fresh collection exhaustively over texts of length 0..5 x delimiters of length 0..3 over {a,b} and {a,-} "
        "(the empty delimiter, every self-overlapping delimiter occurring overlapped -- aa in aaab, -- in a---b --, delimiter equal to / longer than the text, text ending / not "
        "ending with a multi-byte delimiter), the red-team texts, long runs, high-bit bytes, random texts with delimiters cut out of them; every ordered pair of (producer of n1 "
        "elements, producer of n2 elements) for n1, n2 in 0..4 over allocate / split at a byte (ending and not ending with it) / split at the empty delimiter / split at an "
        "overlapping two-byte delimiter -- growing, shrinking, equal sizes, to and from size 0 -- with size() and col[i] for i = 0..max+2 and npos read after each step; third uses, "
        "allocate on a used collection, writes through operator[] inside and outside the range before the re-use, arrays of 17 / 64 / 300 elements; random histories of 1..8 (quick) / "
        "1..25 (thorough) steps; "
        "ALIASING (:als): every statement whose argument points into the object's own buffer (s = s.asCharString() + k, s = s, construct-then-assign, s += s.asCharString() + k, s += s, s.replace(own + k1, own + k2)) and every observer (== / contains / startsWith / endsWith / count with a pointer into itself and with itself, StrStr / StrCmp inside one buffer) with EVERY pointer 0..size() on all texts over {a,b} up to length 3 and on lengths around the string-cache classes, every ordered pair of mutating statements on the same object, random histories; non-trivial = at least one argument string is non-empty or a position is out of range")
ASSUMPTIONS = ["byte strings without embedded NUL (C strings)", "LP64, size_t = 64 bit", "AtoI/AtoU: the digit string read fits the result type (int / unsigned; every run of at most 9 digits does) -- beyond that AtoI is signed overflow: same contract as atoi",
               "StrNCpy/copyToBuffer/MemCmp are called with buffers at least as large as their contract requires",
               "padding character and the one-byte delimiter of :split / :rsplit are non-NUL bytes; the delimiter of :col :sp is a byte string of any length without NUL; allocate(n) with n < 65536; inside operation sequences replace(char, char) does not write NUL (the single operation :replc does)",
               "the harness holds the result object of a sequence as the very object the operation returned (C++17 guaranteed elision of the returned prvalue into a member); "
               "whether the named local inside the library function is itself elided (NRVO) is the compiler's choice -- the model allows either: buffers may carry slack"]
ALPHA = [0x61, 0x62, 0x41, 0x42, 0x2e, 0x20, 0x0a, 0x09, 0x01, 0x7f, 0x80, 0xff, 0x31, 0x5a, 0x5b, 0x40, 0x7a, 0x0d, 0x07, 0x1f]
TWO = ["a", "b", "A", "B"]
GROUP1 = ["strlen", "strcmp", "strncmp", "strstr", "memcmp", "contains", "containsnc", "starts", "ends", "count", "eq", "eqnc", "find",
          "findfrom", "substr", "substr1", "lower", "replc", "ordinal"]
GROUP2 = ["repls", "printable", "append", "plus", "copybuf", "fmt"]
GROUP3 = ["atoi", "atou", "bytes"]       # number parsing; "bytes" = the per-byte sweeps of every character predicate
GROUP4 = ["repeat", "pad", "split", "fromtill", "masked", "binary", "seq", "chain"]     # life cycle: allocation pairing on every operation and on sequences
GROUP6 = ["alias"]                       # arguments pointing into the object's own buffer
ALS_ARITY = {":asgp": 1, ":asgs": 0, ":ctor": 1, ":appp": 1, ":apps": 0, ":repl": 2, ":cmpp": 1, ":cmps": 0, ":sstr": 2, ":scmp": 2}
ALS_MAXLEN = 1500
ALS_MUT = (":asgp", ":asgs", ":ctor", ":appp", ":apps", ":repl")
GROUP5 = ["coll"]                        # the collection as an object with a history; split with delimiters of every length
COL_ARITY = {":sp": 2, ":al": 1, ":put": 2, ":sz": 0, ":get": 1, ":snap": 0}
SEQ_ARITY = {":set": 2, ":asg": 2, ":app": 2, ":appc": 2, ":low": 2, ":sub": 4, ":rc": 3, ":rs": 3, ":prt": 2, ":pad": 3, ":fmt": 3, ":rep": 3, ":plus": 3,
             ":rnew": 1, ":rcopy": 1, ":rsub": 3, ":rsub1": 2, ":rft": 3, ":rlow": 1, ":rprt": 1, ":rplus": 2, ":rfmt": 2, ":rrep": 2, ":rord": 1, ":rmask": 3,
             ":rbin": 1, ":rsplit": 3, ":size": 1, ":at": 2, ":cmp": 2, ":cpb": 2, ":find": 3}
R_PRODUCERS = (":rnew", ":rcopy", ":rsub", ":rsub1", ":rft", ":rlow", ":rprt", ":rplus", ":rfmt", ":rrep", ":rord", ":rmask", ":rbin", ":rsplit")
OBSERVERS = (":size", ":at", ":cmp", ":cpb", ":find")
SHRINK_NUM = {":sub": (3, 4), ":rsub": (2, 3), ":rsub1": (2,), ":rep": (3,), ":rrep": (2,), ":at": (2,), ":cpb": (2,), ":find": (2,), ":rsplit": (3,), ":rord": (1,), ":rmask": (1, 2, 3)}
SEARCH_CAP = 20000                       # search mode (a proof no longer builds): the quick families + this many thorough scenarios
PAIR_OPS = ["strcmp", "strstr", "contains", "containsnc", "starts", "ends", "count", "eq", "eqnc"]


def small_strings(alpha, maxlen):
    out = [b""]
    for n in range(1, maxlen + 1):
        for t in itertools.product(alpha, repeat=n):
            out.append(bytes(t))
    return out


def rstr(rng, lo=0, hi=12, alpha=ALPHA):
    n = rng.randint(lo, hi)
    return bytes(rng.choice(alpha) for _ in range(n))


def related(rng, a):
    """a pattern related to a: a substring, a substring with one byte changed, case-swapped, or random"""
    c = rng.random()
    if a and c < 0.45:
        i = rng.randrange(len(a)); j = rng.randint(i, min(len(a), i + 5))
        p = a[i:j]
    elif a and c < 0.6:
        i = rng.randrange(len(a)); j = rng.randint(i, min(len(a), i + 4))
        p = bytearray(a[i:j])
        if p:
            p[rng.randrange(len(p))] = rng.choice(ALPHA)
        p = bytes(p)
    elif c < 0.7:
        p = a.swapcase()
    elif c < 0.8:
        p = a + rstr(rng, 0, 2)
    else:
        p = rstr(rng, 0, 4, [0x61, 0x62, 0x41])
    return p


def positions(n):
    return sorted(set([0, 1, 2, max(n - 1, 0), n, n + 1, n + 2, NPOS, NPOS - 1, 1 << 63]))


def gen_ops(ops, tier, rng):
    out = []
    ab = [s for s in small_strings(b"ab", 4)]
    pats = [s for s in small_strings(b"ab", 3)]
    mixed = small_strings(bytes([0x61, 0x41, 0x80]), 3)
    if any(o in ops for o in PAIR_OPS):
        for op in [o for o in PAIR_OPS if o in ops]:
            for a in ab:
                for p in pats:
                    out.append(":%s %s %s" % (op, tb(a), tb(p)))
            for a in mixed:
                for p in mixed[:13]:
                    out.append(":%s %s %s" % (op, tb(a), tb(p)))
    nr = 400 if tier == "quick" else 20000
    for _ in range(nr):
        big = rng.random() < 0.03
        # long strings: the bounds-checked model is quadratic in the length (every write rebuilds the buffer list), so few very long ones
        a = rstr(rng, 100, (5000 if rng.random() < 0.05 else 1500) if tier == "thorough" else 600, [0x61, 0x62, 0x41, 0x0a]) if big else rstr(rng)
        p = related(rng, a)
        for op in [o for o in PAIR_OPS if o in ops]:
            if rng.random() < 0.5:
                out.append(":%s %s %s" % (op, tb(a), tb(p)))
        if "strlen" in ops and rng.random() < 0.3:
            out.append(":strlen " + tb(a))
        if "strncmp" in ops:
            n = rng.choice([0, 1, 2, len(a), len(p), len(a) + 1, len(p) + 1, NPOS & 0xffff, rng.randint(0, 14)])
            out.append(":strncmp %s %s %x" % (tb(a), tb(p), n))
        if "memcmp" in ops:
            x = rstr(rng, 0, 8, ALPHA + [0]); y = bytearray(x)
            if y and rng.random() < 0.7:
                y[rng.randrange(len(y))] = rng.choice(ALPHA + [0])
            y = bytes(y) + rstr(rng, 0, 2)
            n = rng.randint(0, min(len(x), len(y)))
            out.append(":memcmp %s %s %x" % (tb(x), tb(y), n))
        if "lower" in ops and rng.random() < 0.5:
            out.append(":lower " + tb(a))
        if not big:
            ch = rng.choice(list(a) + ALPHA + [0]) if a else rng.choice(ALPHA + [0])
            if "find" in ops:
                out.append(":find %s %x" % (tb(a), ch))
            if "findfrom" in ops:
                out.append(":findfrom %s %x %x" % (tb(a), rng.choice(positions(len(a))), ch))
            if "substr" in ops:
                out.append(":substr %s %x %x" % (tb(a), rng.choice(positions(len(a))), rng.choice(positions(len(a)))))
            if "substr1" in ops:
                out.append(":substr1 %s %x" % (tb(a), rng.choice(positions(len(a)))))
            if "replc" in ops:
                out.append(":replc %s %x %x" % (tb(a), ch, rng.choice(ALPHA + [0])))
        if "repls" in ops:
            w = rng.choice([b"", b"x", b"ab", p, p + p, a[:2], rstr(rng, 0, 5)])
            out.append(":repls %s %s %s" % (tb(a), tb(p), tb(w)))
        if "printable" in ops and rng.random() < 0.6:
            out.append(":printable " + tb(a if not big else rstr(rng, 100, 400, ALPHA)))
        for op in ("append", "plus"):
            if op in ops and rng.random() < 0.4:
                out.append(":%s %s %s" % (op, tb(a), tb(p)))
        if "copybuf" in ops and not big:
            out.append(":copybuf %s %x" % (tb(a), rng.choice([0, 1, 2, max(len(a) - 1, 0), len(a), len(a) + 1, len(a) + 2, len(a) + 5])))
    if "repls" in ops:
        for a in ab:
            for p in pats:
                for w in (b"", b"b", b"a", b"aa", b"xyz", p + b"a"):
                    out.append(":repls %s %s %s" % (tb(a), tb(p), tb(w)))
        for a, p, w in ((b"aaaa", b"aa", b"b"), (b"aaa", b"aa", b"b"), (b"abc", b"", b"x"), (b"abababa", b"aba", b"X"), (b"abababa", b"aba", b""),
                        (b"aaaaaaaaaa", b"aaa", b"aaaaaa"), (b"\x80\xff\x80", b"\x80", b"\xff\xff"), (b"a" * 300, b"aa", b"b"), (b"ab" * 200, b"ab", b"")):
            out.append(":repls %s %s %s" % (tb(a), tb(p), tb(w)))
    if "printable" in ops:
        out.append(":printable " + tb(bytes(range(1, 256))))
        out += [":printable " + tb(bytes([c])) for c in range(1, 256)]
        out += [":printable " + tb(s) for s in small_strings(bytes([0x61, 0x0a, 0x01, 0x80]), 3)]
    if "fmt" in ops:
        # formatted construction: total length 0..300, every length around the 100-byte fast-path boundary and the cache class sizes
        lens = list(range(0, 12)) + list(range(90, 112)) + list(range(124, 132)) + list(range(252, 260)) + [31, 32, 33, 63, 64, 65, 95, 96, 97, 200, 300]
        lens += [rng.randint(0, 300) for _ in range(40 if tier == "quick" else 2000)]
        for n in lens:
            k = rng.randint(0, n)
            t = bytes(rng.choice([0x61, 0x62, 0x25, 0x80, 0x0a]) for _ in range(n))
            out.append(":fmt %s %s" % (tb(t[:k]), tb(t[k:])))
            out.append(":fmt %s %s" % (tb(t), tb(b"")))
    if "copybuf" in ops:
        for a in (b"", b"a", b"ab", b"hello"):
            for dn in range(0, len(a) + 4):
                out.append(":copybuf %s %x" % (tb(a), dn))
    # exhaustive positions on short strings
    for a in [b"", b"a", b"ab", b"aba", b"hello\nworld"]:
        for b in positions(len(a)):
            if "substr1" in ops:
                out.append(":substr1 %s %x" % (tb(a), b))
            for n in positions(len(a)):
                if "substr" in ops:
                    out.append(":substr %s %x %x" % (tb(a), b, n))
            for ch in (0x61, 0x62, 0x0a, 0, 0xff):
                if "findfrom" in ops:
                    out.append(":findfrom %s %x %x" % (tb(a), b, ch))
    if "strlen" in ops:
        out += [":strlen " + tb(s) for s in small_strings(bytes([0x61, 0xff]), 3)]
    if "lower" in ops:
        out.append(":lower " + tb(bytes(range(1, 256))))
        out += [":lower " + tb(bytes([c])) for c in (0x40, 0x41, 0x5a, 0x5b, 0x60, 0x61, 0x7a, 0x7b, 0xc1, 0xe1)]
    if "ordinal" in ops:
        ns = list(range(0, 130)) + [211, 212, 213, 1011, 1012, 1013, 1111, 10011, 99, 100, 101, 102, 103, 110, 111, 112, 113, 114, 121, 122, 123,
                                    (1 << 32) - 1, (1 << 32) - 85, 4294967211, 1000000011]
        ns += [rng.randrange(1 << 32) for _ in range(100 if tier == "quick" else 5000)]
        ns += [rng.randrange(1 << 20) * 100 + rng.choice([11, 12, 13, 1, 2, 3, 21]) for _ in range(60)]
        out += [":ordinal %x" % (n & 0xffffffff) for n in ns]
    if "strncmp" in ops:
        for a in small_strings(b"ab", 3):
            for p in small_strings(b"ab", 2):
                for n in range(0, 5):
                    out.append(":strncmp %s %s %x" % (tb(a), tb(p), n))
    return out



# ---------------------------------------------------------------- AtoI / AtoU and the character predicates
BLANKS = [0x20, 0x09, 0x0a, 0x0b, 0x0c, 0x0d]
NEAR_BLANKS = [0x08, 0x0e, 0x1f, 0x21, 0xa0, 0x89, 0x8d, 0x07]
NUM_BOUNDARY = [b"", b"-", b"+", b"+-5", b"--5", b"-+5", b"++5", b" \t\n\v\f\r42", b"\x0842", b"\x0e42", b"0042", b"999999999", b"-999999999",
                b"+999999999", b"12a3", b"/5", b":5", b"0", b"-0", b"+0", b"9", b"10", b"-1", b" -1", b"- 1", b"-\t1", b"1 2", b"1-2", b"1+2", b"5-", b"09", b"90",
                b"19", b"91", b"0/", b"9:", b"/0", b":9", b"2147483647", b"-2147483647", b"+2147483647", b"0000000000042", b"-0000000000042", b"000000000",
                b" 2147483647x", b"\x80" b"5", b"\xb05", b"5\xb9", b"\xa05", b" \xa05", b"\x205", b"\x0d\x0a7", b"\x0c\x0b\x0a\x097", b"  \x0e7", b"7 ", b"7\t8"]
ATOU_ONLY = [b"4294967295", b"4294967294", b"2147483648", b"3000000000", b" \r4294967295/", b"0004294967295"]


def _digit_value(a, signed):
    """value of the digit run the function reads (after blanks and, for AtoI, one sign)"""
    i = 0
    while i < len(a) and (a[i] == 0x20 or 9 <= a[i] <= 13):
        i += 1
    if signed and i < len(a) and a[i] in (0x2b, 0x2d):
        i += 1
    v = 0
    while i < len(a) and 0x30 <= a[i] <= 0x39:
        v = v * 10 + a[i] - 0x30
        i += 1
    return v


def num_ok(op, a):
    """the digit string fits the result type (valid of the Coq model)"""
    return _digit_value(a, True) <= 0x7fffffff if op == "atoi" else _digit_value(a, False) < (1 << 32)


def gen_numbers(ops, tier, rng):
    out = []
    nops = [o for o in ("atoi", "atou") if o in ops]

    def add(op, a):
        if 0 not in a and num_ok(op, a):
            out.append(":%s %s" % (op, tb(bytes(a))))
    if "bytes" in ops:
        # every char value at every place a predicate looks at it: first character, between digits, after a blank, after a sign
        for c in range(1, 256):
            for op in nops:
                for a in ([c, 0x37], [0x37, c, 0x33], [0x20, c, 0x37], [0x2d, c, 0x35], [0x2b, c, 0x35], [c], [c, c, 0x31], [0x09, c, 0x0d, 0x38, c, 0x39]):
                    add(op, a)
            if "lower" in ops:
                out.append(":lower " + tb(bytes([c])))
                out.append(":lower " + tb(bytes([0x61, c, 0x5a, c])))
            d = c ^ 0x20
            if d:
                if "eqnc" in ops:
                    out.append(":eqnc %s %s" % (tb(bytes([c])), tb(bytes([d]))))
                    out.append(":eqnc %s %s" % (tb(bytes([0x78, c, 0x59])), tb(bytes([0x58, d, 0x79]))))
                if "containsnc" in ops:
                    out.append(":containsnc %s %s" % (tb(bytes([0x78, c, 0x79])), tb(bytes([d]))))
                    out.append(":containsnc %s %s" % (tb(bytes([0x58, d, d, c])), tb(bytes([c, c]))))
                if "eq" in ops:
                    out.append(":eq %s %s" % (tb(bytes([c])), tb(bytes([d]))))
            if "eqnc" in ops:
                out.append(":eqnc %s %s" % (tb(bytes([c])), tb(bytes([c]))))
            if "printable" in ops:
                out.append(":printable " + tb(bytes([0x61, c, 0x20, c])))
    for op in nops:
        for a in NUM_BOUNDARY + (ATOU_ONLY if op == "atou" else []):
            add(op, a)
            for pre in (b" ", b"\t", b"\r\n", b"x"):
                add(op, pre + a)
            add(op, a + b"x")
            add(op, a + b" 1")
    nr = 1500 if tier == "quick" else 20000
    junk = list(range(1, 256))
    for _ in range(nr):
        pre = bytes(rng.choice(BLANKS if rng.random() < 0.8 else NEAR_BLANKS) for _ in range(rng.choice([0, 0, 1, 1, 2, 3, 6])))
        sign = rng.choice([b"", b"", b"", b"-", b"+", b"-", b"--", b"+-", b"- ", b"-+"])
        nd = rng.choice([0, 1, 1, 2, 3, 5, 8, 9, 9])
        digs = bytes(rng.choice(b"0123456789") for _ in range(nd))
        if rng.random() < 0.2:
            digs = b"0" * rng.randint(1, 6) + digs
        c = rng.random()
        post = b"" if c < 0.3 else bytes([rng.choice([0x2f, 0x3a, 0x20, 0x2d, 0x2b, 0x61, 0x2e, 0x09, 0xb5, 0x80, 0xff])]) + rstr(rng, 0, 3, list(b"0123456789 -+a")) if c < 0.7 \
            else bytes(rng.choice(junk) for _ in range(rng.randint(1, 4)))
        a = pre + sign + digs + post
        for op in nops:
            add(op, a)
    return out


# ---------------------------------------------------------------- life cycle: every buffer comes back once, with its size
EDGE_LENS = [0, 1, 2, 3, 30, 31, 32, 33, 63, 64, 65, 95, 96, 99, 100, 101, 127, 128, 129, 255, 256, 257]


def seq(ops):
    return ":seq %x %s" % (len(ops), " ".join(ops))


def nstr(rng, n, alpha=(0x61, 0x62, 0x41, 0x2c)):
    return bytes(rng.choice(alpha) for _ in range(n))


def seq_producers(rng, n):
    """operations that leave obj[0] holding a freshly obtained buffer; n = the length scale of the strings"""
    a = nstr(rng, n); h = nstr(rng, n // 2); k = max(n, 1)
    return [[":set 0 " + tb(a)],
            [":set 1 " + tb(a), ":asg 0 1"],
            [":set 0 " + tb(h), ":set 1 " + tb(a), ":app 0 1"],
            [":set 0 " + tb(h), ":appc 0 " + tb(a)],
            [":set 1 " + tb(a.upper()), ":low 0 1"],
            [":set 1 " + tb(a + b"xyz"), ":sub 0 1 1 %x" % n],
            [":set 0 " + tb(a), ":rc 0 61 7a"],
            [":set 0 " + tb(b"a," + a), ":rs 0 " + tb(b"a") + " " + tb(b"AA")],
            [":set 1 " + tb(a + b"\n"), ":prt 0 1"],
            [":set 0 " + tb(h), ":set 1 " + tb(a + b"zz"), ":pad 0 1 2e"],
            [":set 0 " + tb(a + b"zz"), ":set 1 " + tb(h), ":pad 1 0 20"],
            [":fmt 0 " + tb(h) + " " + tb(a)],
            [":rep 0 " + tb(b"ab") + " %x" % k],
            [":set 1 " + tb(h), ":set 2 " + tb(a), ":plus 0 1 2"]]


def seq_releasers(rng, n):
    """operations that make obj[0] give its buffer back (the empty list = the destructor at the end of the scenario)"""
    b = nstr(rng, max(n // 3, 1))
    return [[],
            [":set 0 " + tb(b)],
            [":set 2 " + tb(b), ":asg 0 2"],
            [":asg 0 0"],
            [":appc 0 " + tb(b)],
            [":app 0 0"],
            [":set 2 " + tb(b), ":app 0 2"],
            [":low 0 0"],
            [":sub 0 0 1 2"],
            [":rs 0 " + tb(b"a") + " " + tb(b"")],
            [":rs 0 " + tb(b"b") + " " + tb(b"cde")],
            [":prt 0 0"],
            [":set 2 " + tb(nstr(rng, n + 5)), ":pad 0 2 2a"],
            [":set 2 " + tb(nstr(rng, n + 5)), ":pad 2 0 2a", ":set 1 " + tb(nstr(rng, n + 9)), ":pad 0 1 2b"],
            [":fmt 0 " + tb(b) + " " + tb(b)],
            [":rep 0 " + tb(b) + " 2"],
            [":plus 0 0 0"],
            [":asg 1 0", ":appc 1 " + tb(b), ":asg 0 1"]]


def random_step(rng, w, lens=(0, 1, 2, 3, 5, 8, 30, 31, 32, 33, 64, 99, 100, 101), top=4):
    i, j, k = rng.randrange(top), rng.randrange(top), rng.randrange(top)
    a = nstr(rng, rng.choice(lens) if rng.random() < 0.3 else rng.randint(0, 6))
    b = nstr(rng, rng.randint(0, 3))
    if w in (":set", ":appc"):
        return "%s %x %s" % (w, i, tb(a))
    if w in (":asg", ":app", ":low", ":prt", ":cmp"):
        return "%s %x %x" % (w, i, j)
    if w == ":sub":
        return ":sub %x %x %x %x" % (i, j, rng.choice([0, 1, 2, 5, 40, NPOS]), rng.choice([0, 1, 3, 31, 32, NPOS]))
    if w == ":rc":
        return ":rc %x %x %x" % (i, rng.choice([0x61, 0x62, 0x2c, 0]), rng.choice([0x61, 0x78, 0xff, 0x0a]))
    if w == ":rs":
        return ":rs %x %s %s" % (i, tb(rng.choice([b"a", b"ab", b",", b"aa", b"", b])), tb(rng.choice([b"", b"x", b"abab", b])))
    if w == ":pad":
        return ":pad %x %x %x" % (i, j, rng.choice([0x20, 0x2e, 0x30, 0xff]))
    if w == ":fmt":
        return ":fmt %x %s %s" % (i, tb(a), tb(b))
    if w == ":rep":
        return ":rep %x %s %x" % (i, tb(b), rng.choice([0, 1, 2, 3, 16, 33]))
    if w == ":plus":
        return ":plus %x %x %x" % (i, j, k)
    if w == ":rnew":
        return ":rnew " + tb(a)
    if w in (":rcopy", ":rlow", ":rprt", ":size"):
        return "%s %x" % (w, j)
    if w == ":rsub":
        return ":rsub %x %x %x" % (j, rng.choice([0, 0, 1, 2, 5, 40, NPOS]), rng.choice([0, 1, 2, 3, 4, 31, 32, NPOS]))
    if w == ":rsub1":
        return ":rsub1 %x %x" % (j, rng.choice([0, 1, 2, 5, 40, NPOS]))
    if w == ":rft":
        return ":rft %x %x %x" % (j, rng.choice([0x61, 0x62, 0x41, 0x2c, 0]), rng.choice([0x61, 0x62, 0x2c, 0x7a, 0]))
    if w == ":rplus":
        return ":rplus %x %x" % (j, k)
    if w == ":rfmt":
        return ":rfmt %s %s" % (tb(a), tb(b))
    if w == ":rrep":
        return ":rrep %s %x" % (tb(b), rng.choice([0, 1, 2, 3, 16, 33]))
    if w == ":rord":
        return ":rord %x" % rng.choice([0, 1, 2, 3, 11, 12, 13, 21, 111, 4294967295])
    if w == ":rmask":
        return ":rmask %x %x %x" % (rng.getrandbits(16), rng.getrandbits(16), rng.randint(0, 3))
    if w == ":rbin":
        return ":rbin " + tb(bytes(rng.randrange(256) for _ in range(rng.randint(0, 5))))
    if w == ":rsplit":
        return ":rsplit %x %x %x" % (j, rng.choice([0x2c, 0x61, 0x62]), rng.randint(0, 4))
    if w == ":at":
        return ":at %x %x" % (i, rng.choice([0, 1, 2, 3, 5, 31, 100, NPOS]))
    if w == ":cpb":
        return ":cpb %x %x" % (i, rng.choice([0, 1, 2, 3, 4, 5, 8, 33, 120]))
    if w == ":find":
        return ":find %x %x %x" % (i, rng.choice([0, 1, 2, 5, NPOS]), rng.choice([0x61, 0x62, 0x2c, 0x41, 0]))
    raise ValueError(w)


def random_seq(rng, maxops):
    return seq([random_step(rng, rng.choice(list(SEQ_ARITY))) for _ in range(rng.randint(1, maxops))])


# ---- chains: an operation applied IN PLACE to the object an earlier operation returned
def chain_producers(rng, n):
    """step lists that leave the result object R (obj[3]) -- or, for the in-place producers, obj[0] -- holding a fresh result; n = length
    scale.  Returns (label, steps, target index).  The truncating forms (amount smaller than the remaining length, subStringFromTill
    finding its end character) are the ones that can leave a buffer larger than size() + 1 in the returned object."""
    a = nstr(rng, n, (0x61, 0x62, 0x41)) + b",a"; L = len(a); h = nstr(rng, max(n // 2, 1), (0x61, 0x62)); k = max(n, 1)
    s0 = ":set 0 " + tb(a)
    out = [("ctor", [":rnew " + tb(a)], 3),
           ("ctor-empty", [":rnew $"], 3),
           ("default", [], 3),
           ("copy", [s0, ":rcopy 0"], 3),
           ("lowerCase", [":set 0 " + tb(a.upper()), ":rlow 0"], 3),
           ("printable", [":set 0 " + tb(a + b"\n\x01"), ":rprt 0"], 3),
           ("plus", [s0, ":set 1 " + tb(h), ":rplus 0 1"], 3),
           ("plus-empty", [s0, ":rplus 0 1"], 3),
           ("format", [":rfmt %s %s" % (tb(h), tb(a))], 3),
           ("format-long", [":rfmt %s %s" % (tb(a * 3), tb(nstr(rng, 100)))], 3),
           ("repeat", [":rrep %s %x" % (tb(b"ab"), k)], 3),
           ("repeat-0", [":rrep %s 0" % tb(b"ab")], 3),
           ("ordinal", [":rord %x" % rng.choice([1, 2, 3, 11, 112, 1000003])], 3),
           ("masked", [":rmask a5 f0 2"], 3),
           ("binary", [":rbin " + tb(bytes([0, 0xff, 0x10]))], 3),
           ("binary-empty", [":rbin $"], 3),
           # replace results and padded strings: the object is changed in place and then consumed
           ("replace-str-grow", [":rnew " + tb(a), ":rs 3 %s %s" % (tb(b"a"), tb(b"AAA"))], 3),
           ("replace-str-shrink", [":rnew " + tb(a), ":rs 3 %s %s" % (tb(b"a"), tb(b""))], 3),
           ("replace-str-all", [":rnew " + tb(b"aaaa"), ":rs 3 %s %s" % (tb(b"a"), tb(b""))], 3),
           ("replace-str-nomatch", [":rnew " + tb(a), ":rs 3 %s %s" % (tb(b"zz"), tb(b"y"))], 3),
           ("replace-char", [":rnew " + tb(a), ":rc 3 61 7a"], 3),
           ("padded-1", [":rnew " + tb(h), ":set 1 " + tb(a), ":pad 3 1 2e"], 3),
           ("padded-2", [":rnew " + tb(h), ":set 1 " + tb(a), ":pad 1 3 20"], 3),
           ("padded-not", [":rnew " + tb(a), ":set 1 " + tb(h), ":pad 3 1 2e"], 3),
           ("named replace-str", [s0, ":rs 0 %s %s" % (tb(b"a"), tb(b"AAA"))], 0),
           ("named padded", [":set 0 " + tb(h), ":set 1 " + tb(a), ":pad 0 1 2e"], 0),
           ("named assigned subString", [":set 1 " + tb(a), ":sub 0 1 0 %x" % max(L // 2, 1)], 0)]
    # subString(begin, amount): every truncating / non-truncating / out-of-range shape
    for b, m, what in ((0, L // 2, "truncating"), (0, 1, "truncating to 1"), (0, 0, "truncating to 0"), (1, L - 2, "truncating by 1"), (2, 1, "truncating inner"),
                       (L - 1, 0, "truncating last"), (0, L, "exact"), (0, L + 1, "amount past end"), (1, NPOS, "npos"), (0, NPOS, "whole"),
                       (L, 1, "begin at end"), (L + 1, 0, "begin past end"), (NPOS, NPOS, "begin npos")):
        out.append(("subString " + what, [s0, ":rsub 0 %x %x" % (b, m)], 3))
    for b in (0, 1, L - 1, L, NPOS):
        out.append(("subString(begin)", [s0, ":rsub1 0 %x" % b], 3))
    # a second subString on the returned object, then consumed
    out.append(("subString of subString", [s0, ":rsub 0 0 %x" % max(L - 1, 1), ":rsub 3 1 %x" % max(L // 3, 1)], 3))
    out.append(("subString(begin) of subString", [s0, ":rsub 0 0 %x" % max(L // 2, 1), ":rsub1 3 1"], 3))
    # subStringFromTill: end character found (truncation) / not found / start not found / both the same
    line = nstr(rng, max(n // 2, 1), (0x61, 0x62)) + b"k=" + nstr(rng, n, (0x61, 0x62)) + b";x"
    for c1, c2, what in ((0x6b, 0x3d, "end found"), (0x6b, 0x3b, "end found late"), (0x6b, 0x7a, "end not found"), (0x7a, 0x3d, "start not found"),
                         (0x6b, 0x6b, "end = start"), (0x3d, 0, "end NUL"), (0, 0x3d, "start NUL")):
        out.append(("subStringFromTill " + what, [":set 0 " + tb(line), ":rft 0 %x %x" % (c1, c2)], 3))
    # elements of a split collection (each is itself produced by a truncating subString), the last piece, the out-of-range element
    parts = b",".join(nstr(rng, max(n // 3, 1), (0x61, 0x62)) for _ in range(3))
    for txt, ks in ((parts, (0, 1, 2, 3)), (parts + b",", (2, 3)), (b",,", (0, 1, 2)), (b"", (0, 1)), (b"abc", (0, 1))):
        for kk in ks:
            out.append(("split element", [":set 0 " + tb(txt), ":rsplit 0 2c %x" % kk], 3))
    return out


def chain_consumers(rng, t, n):
    """step lists that consume obj[t] in place (or read it as an argument); obj[1], obj[2] are scratch"""
    x = nstr(rng, max(n // 4, 1), (0x78, 0x79, 0x2c)); T = "%x" % t
    out = [[":appc %s %s" % (T, tb(b"x"))],
           [":appc %s %s" % (T, tb(x + b", there"))],
           [":appc %s $" % T],
           [":set 2 " + tb(x), ":app %s 2" % T],
           [":app %s %s" % (T, T)],
           [":app 2 " + T, ":appc 2 " + tb(b"!")],
           [":rc %s 61 7a" % T],
           [":rc %s 2c 61" % T],
           [":rs %s %s %s" % (T, tb(b"a"), tb(b"xyz"))],
           [":rs %s %s %s" % (T, tb(b"a"), tb(b""))],
           [":rs %s %s %s" % (T, tb(b"q"), tb(b"xyz"))],
           [":rs %s %s %s" % (T, tb(b","), tb(b";;"))],
           [":size " + T],
           [":cmp %s 0" % T, ":cmp 0 " + T, ":cmp %s %s" % (T, T)],
           [":set 2 " + tb(b"a"), ":cmp %s 2" % T, ":set 2 $", ":cmp %s 2" % T],
           [":find %s 0 61" % T, ":find %s 1 2c" % T, ":find %s 0 0" % T],
           [":rsub %s 0 1" % T], [":rsub %s 1 %x" % (T, NPOS)], [":rsub1 %s 1" % T], [":sub 1 %s 0 2" % T],
           [":rft %s 61 2c" % T],
           [":rsplit %s 2c 0" % T], [":rsplit %s 61 1" % T],
           [":asg 1 " + T], [":asg %s %s" % (T, T)], [":rcopy " + T], [":low 1 " + T], [":rlow " + T], [":prt 1 " + T], [":rprt " + T],
           [":plus 1 %s %s" % (T, T)], [":rplus %s %s" % (T, T)],
           [":set 1 " + tb(x * 9), ":pad %s 1 2e" % T], [":set 1 " + tb(x * 9), ":pad 1 %s 2e" % T], [":pad %s 1 2e" % T],
           [":set %s %s" % (T, tb(x))]]
    for dn in (0, 1, 2, 3, n, n + 1, n + 2, n + 8):
        out.append([":cpb %s %x" % (T, dn)])
    for pos in (0, 1, 2, n - 1, n, n + 1, NPOS):
        out.append([":at %s %x" % (T, max(pos, 0))])
    return out


def chain_tail(t):
    """what is still asked of the object after the consumer: its size, a further += (must not be lost either), a copy, a comparison"""
    T = "%x" % t
    return [":size " + T, ":appc %s %s" % (T, tb(b"!")), ":asg 2 " + T, ":cmp 2 " + T]


def random_chain(rng, maxops):
    """a producer of R, then random steps that mostly work on R itself"""
    prods = chain_producers(rng, rng.choice([1, 2, 3, 5, 8, 31, 33, 100]))
    _, steps, t = rng.choice(prods)
    ops = list(steps)
    for _ in range(rng.randint(1, maxops)):
        c = rng.random()
        if c < 0.6:
            ops += rng.choice(chain_consumers(rng, t, rng.choice([1, 3, 8, 31])))
        elif c < 0.8:
            ops.append(random_step(rng, rng.choice(list(SEQ_ARITY))))
        else:
            ops += rng.choice(chain_producers(rng, rng.choice([1, 3, 8])))[1]
    return seq(ops)


def gen_life(ops, tier, rng):
    out = []
    quick = tier == "quick"
    sm = small_strings(b"ab", 3)
    if "pad" in ops:
        # the three ways a padded buffer is released: destruction (here), += and a second padding (sequences below)
        for a in sm:
            for b in sm:
                out.append(":pad %s %s 2e" % (tb(a), tb(b)))
        for n in EDGE_LENS:
            for d in (0, 1, 2, 7):
                a = nstr(rng, n); b = nstr(rng, n + d)
                out.append(":pad %s %s 20" % (tb(a), tb(b)))
                out.append(":pad %s %s ff" % (tb(b), tb(a)))
        for _ in range(100 if quick else 5000):
            out.append(":pad %s %s %x" % (tb(rstr(rng, 0, 40)), tb(rstr(rng, 0, 40)), rng.choice([0x20, 0x2e, 0x30, 0x01, 0x80, 0xff])))
    if "repeat" in ops:
        for a in sm + [b"hello", b"\x80\xff"]:
            for k in (0, 1, 2, 3, 7):
                out.append(":repeat %s %x" % (tb(a), k))
        for n in EDGE_LENS:
            out.append(":repeat %s %x" % (tb(b"x"), n))
        for _ in range(40 if quick else 2000):
            out.append(":repeat %s %x" % (tb(rstr(rng, 0, 6)), rng.randint(0, 40)))
    if "split" in ops:
        for a in small_strings(b"a,", 5) + [b",,,", b"a,,b", b"abc", b",", b"one,two,three", b"one,two,three,", b"\n\n", b"x" * 40 + b"," + b"y" * 100]:
            out.append(":split %s 2c" % tb(a))
        for _ in range(150 if quick else 6000):
            a = rstr(rng, 0, 30, [0x61, 0x62, 0x2c, 0x0a, 0x80, 0x2c])
            out.append(":split %s %x" % (tb(a), rng.choice([0x2c, 0x0a, 0x61, 0x80, 0x7a])))
    if "fromtill" in ops:
        for a in small_strings(b"a(,", 4):
            out.append(":fromtill %s 28 2c" % tb(a))
        for a in (b"", b"f(a,b)", b"((,", b",(", b"(", b"a"):
            for c1 in (0x28, 0x2c, 0, 0x61):
                for c2 in (0x2c, 0x28, 0, 0x29):
                    out.append(":fromtill %s %x %x" % (tb(a), c1, c2))
        for _ in range(150 if quick else 6000):
            a = rstr(rng, 0, 20, [0x61, 0x62, 0x28, 0x2c, 0x29, 0x80])
            out.append(":fromtill %s %x %x" % (tb(a), rng.choice([0x28, 0x2c, 0x61, 0x80, 0]), rng.choice([0x29, 0x2c, 0x62, 0x28, 0])))
    if "masked" in ops:
        vals = [0, 1, 0xff, 0x80, 0xa5, 0x5a5a, 0xffffffff, (1 << 63), (1 << 64) - 1, 0x0123456789abcdef]
        for bc in list(range(0, 10)) + [16, 255, NPOS]:
            for v, m in ((0, 0), (0xa5, 0xff), (0xffff, 0xf0f0), ((1 << 64) - 1, (1 << 64) - 1), (0x0123456789abcdef, 0xff00ff00ff00ff00), (1 << 63, 1 << 63)):
                out.append(":masked %x %x %x" % (v, m, bc))
        for _ in range(60 if quick else 3000):
            out.append(":masked %x %x %x" % (rng.choice(vals + [rng.getrandbits(64)]), rng.choice(vals + [rng.getrandbits(64)]), rng.randint(0, 9)))
    if "binary" in ops:
        for a in (b"", b"\x00", b"\x0a", b"\xff", b"\x00\x01", b"\x9f\xa0\x0f", bytes(range(0, 256)), bytes(40), bytes(33), bytes(32), bytes(11)):
            out.append(":binary " + tb(a))
        for _ in range(40 if quick else 2000):
            out.append(":binary " + tb(bytes(rng.randrange(256) for _ in range(rng.randint(0, 45)))))
    if "seq" in ops:
        for n in (3, 31, 100):
            prods = seq_producers(rng, n)
            rels = seq_releasers(rng, n)
            for pr in prods:
                for rl in rels:
                    out.append(seq(pr + rl))
        # the same object padded, appended to, padded again, assigned, in the orders a caller can choose
        for x, y in ((b"ab", b"wxyz"), (b"", b"q"), (b"a" * 29, b"b" * 32), (b"a" * 90, b"b" * 131)):
            base = [":set 0 " + tb(x), ":set 1 " + tb(y)]
            out.append(seq(base + [":pad 0 1 2e"]))
            out.append(seq(base + [":pad 1 0 2e"]))
            out.append(seq(base + [":pad 0 1 2e", ":appc 0 " + tb(b"!")]))
            out.append(seq(base + [":pad 0 1 2e", ":app 1 0", ":pad 0 1 2d"]))
            out.append(seq(base + [":pad 0 1 2e", ":asg 2 0", ":asg 0 1"]))
            out.append(seq(base + [":pad 0 1 2e", ":pad 0 1 2e", ":appc 1 " + tb(b"zz"), ":pad 0 1 30", ":pad 1 2 30"]))
            out.append(seq(base + [":pad 0 1 2e", ":rs 0 " + tb(b".") + " " + tb(b"--"), ":pad 1 0 2e"]))
        for _ in range(300 if quick else 20000):
            out.append(random_seq(rng, 8 if quick else 20))
    if "chain" in ops:
        # every producer of an object x every operation applied in place to the RETURNED object itself, at two sizes
        for n in ((3, 40) if quick else (1, 3, 8, 31, 40, 100)):
            for _, pr, t in chain_producers(rng, n):
                for cn in chain_consumers(rng, t, n):
                    out.append(seq(pr + cn + chain_tail(t)))
        # the shape of the red-team change and its neighbours: truncating / non-truncating substring, directly / through a copy / through an assignment
        for txt in (b"Hello World", b"a", b"ab", b"abc", b"\x80\xff\x01xyz", b"0123456789" * 4):
            L = len(txt)
            for b in range(0, min(L, 4) + 2):
                for m in sorted(set([0, 1, 2, L - b - 1, L - b, L - b + 1, L]) & set(range(0, L + 2))):
                    for tail in (b"", b"!", b", there", b"\xfe\x7f"):
                        base = [":set 0 " + tb(txt), ":rsub 0 %x %x" % (b, m)]
                        out.append(seq(base + [":appc 3 " + tb(tail), ":size 3", ":set 1 " + tb(tail), ":app 3 1"]))
                    out.append(seq(base + [":rcopy 3", ":appc 3 " + tb(b"=")]))
                    out.append(seq(base + [":asg 1 3", ":appc 1 " + tb(b"=")]))
                    out.append(seq(base + [":app 1 3", ":appc 0 " + tb(b"=")]))
        for _ in range(500 if quick else 30000):
            out.append(random_chain(rng, 4 if quick else 10))
    return out


# ---------------------------------------------------------------- the collection as an object with a history; delimiters of every length
def col(ops):
    return ":col %x %s" % (len(ops), " ".join(ops))


def col_split(t):
    """the steps of a :col scenario as token lists"""
    ops, k = [], 2
    while k < len(t):
        n = COL_ARITY.get(t[k])
        if n is None:
            break
        ops.append(t[k:k + 1 + n])
        k += 1 + n
    return ops


def ref_split(a, d):
    """textbook tokens (python side, only for classify / generator shaping -- the judge is the Coq spec)"""
    out, pos = [], 0
    while pos < len(a):
        f = a.find(d, pos)
        if f < 0 or f >= len(a):
            break
        out.append(a[pos:f + 1]); pos = f + 1
    if not a.endswith(d):
        out.append(a[pos:])
    return out


def text_with_tokens(rng, n, d=b",", ending=False, alpha=(0x61, 0x62, 0x63)):
    """a text that splits at the one-byte delimiter d into exactly n tokens (n >= 1; ending: the last token ends with d)"""
    toks = [nstr(rng, rng.randint(0 if (ending or k < n - 1) else 1, 3), alpha) for k in range(n)]
    txt = d.join(toks) + (d if ending else b"")
    return txt if len(ref_split(txt, d)) == n else d.join([b"t%d" % k for k in range(n)]) + (d if ending else b"")


def col_reads(n):
    """observers after a step that should leave n elements: size, every element, the first ones outside, far outside"""
    return [":sz"] + [":get %x" % i for i in range(0, n + 3)] + [":get %x" % NPOS]


def col_producers(rng, n):
    """steps that should leave the collection with exactly n elements"""
    out = [[":al %x" % n]]
    if n == 0:
        out.append([":sp $ $"])                                   # "".split(""): no token at all
        out.append([":sp %s $" % tb(b"")])
    else:
        out.append([":sp %s %s" % (tb(text_with_tokens(rng, n)), tb(b","))])
        out.append([":sp %s %s" % (tb(text_with_tokens(rng, n, ending=True)), tb(b","))])
        out.append([":sp %s $" % tb(nstr(rng, n))])               # the empty delimiter: every byte a token
        if n >= 2:
            out.append([":sp %s %s" % (tb(b"x" + b"-" * n + b"y"), tb(b"--"))])      # n - 1 overlapping occurrences of "--" and the rest
    return out


def random_col_step(rng, size_hint):
    c = rng.random()
    idx = rng.choice([0, 1, 2, 3, 5, max(size_hint - 1, 0), size_hint, size_hint + 1, 64, NPOS, 1 << 63])
    if c < 0.30:
        a = nstr(rng, rng.randint(0, 9), (0x61, 0x61, 0x62, 0x2c, 0x2d))
        d = rng.choice([b",", b"-", b"a", b"aa", b"--", b"ab", b"", b"a,", a[:2], a[-2:], a, a + b"a", nstr(rng, rng.randint(0, 3), (0x61, 0x62, 0x2c, 0x2d))])
        return ":sp %s %s" % (tb(a), tb(d))
    if c < 0.42:
        return ":al %x" % rng.choice([0, 0, 1, 2, 3, 5, 8, 17, 64, 300])
    if c < 0.55:
        return ":put %x %s" % (idx, tb(nstr(rng, rng.randint(0, 4))))
    if c < 0.70:
        return ":sz"
    if c < 0.92:
        return ":get %x" % idx
    return ":snap"


def gen_coll(tier, rng):
    out = []
    quick = tier == "quick"
    # (1) ONE split on a fresh collection, delimiters of every length: exhaustive over short texts x short delimiters over two alphabets
    #     (every self-overlapping delimiter aa, aaa, abab.., --, delimiter = text, longer than the text, text ending / not ending with it, empty)
    seen = set()
    for alpha, tl, dl in ((b"ab", 5, 3), (b"a-", 5, 3), (b"ab", 7 if not quick else 6, 1)):
        for a in small_strings(alpha, tl):
            for d in small_strings(alpha, dl):
                if (a, d) not in seen:
                    seen.add((a, d)); out.append(col([":sp %s %s" % (tb(a), tb(d))]))
    for a, d in ((b"xx--yy---zz", b"--"), (b"aaab", b"aa"), (b"key====value", b"=="), (b"aaa", b"aa"), (b"aaaaaa", b"aa"), (b"abababab;", b"abab"), (b"a---b", b"--"),
                 (b"a--", b"--"), (b"--", b"--"), (b"-", b"--"), (b"", b"--"), (b"abc", b"abc"), (b"abcabc", b"abc"), (b"ab", b"abc"), (b"a--b--c", b"--"), (b"a--b--c--", b"--"),
                 (b"one, two, three", b", "), (b"one, two, three, ", b", "), (b"\r\n\r\n", b"\r\n"), (b"\r\n\n\r\n", b"\r\n"), (b"\x80\xff\x80\xff\x80", b"\x80\xff\x80"), (b"\xff\xff\xff", b"\xff\xff"),
                 (b"a" * 40, b"a" * 39), (b"a" * 40, b"a" * 40), (b"a" * 40, b"a" * 41), (b"ab" * 30 + b"a", b"aba"), (b"x" * 100 + b"==" + b"y" * 130 + b"===", b"==")):
        out.append(col([":sp %s %s" % (tb(a), tb(d))]))
    for _ in range(300 if quick else 10000):
        a = rstr(rng, 0, 30, [0x61, 0x61, 0x62, 0x2d, 0x2c, 0x80])
        c = rng.random()
        if a and c < 0.5:
            i = rng.randrange(len(a)); d = a[i:i + rng.randint(1, 4)]
        elif c < 0.6:
            d = a
        elif c < 0.7:
            d = a + rstr(rng, 1, 2, [0x61])
        elif c < 0.8:
            d = a[-rng.randint(1, 3):] if a else b""
        else:
            d = rstr(rng, 0, 3, [0x61, 0x62, 0x2d])
        out.append(col([":sp %s %s" % (tb(a), tb(d))]))
    # (2) the collection used AGAIN: every ordered pair of (producer of n1 elements, producer of n2 elements), n1, n2 in 0..4 -- growing,
    #     shrinking, equal sizes, to and from size 0 -- with size() and col[i] inside and outside the range read after each step
    sizes = (0, 1, 2, 3, 4)
    for n1 in sizes:
        for n2 in sizes:
            for p1 in col_producers(rng, n1):
                for p2 in col_producers(rng, n2):
                    out.append(col(p1 + col_reads(n1) + p2 + col_reads(max(n1, n2))))
    #     a third use that is longer again, allocate() on a used collection, writes through operator[] inside / outside the range before the re-use
    for n1, n2, n3 in ((4, 2, 5), (2, 2, 2), (5, 0, 1), (1, 3, 2), (3, 1, 3), (0, 0, 4), (6, 5, 4)):
        for _ in range(2 if quick else 12):
            p1, p2, p3 = (rng.choice(col_producers(rng, n)) for n in (n1, n2, n3))
            out.append(col(p1 + [":sz"] + p2 + col_reads(n1) + p3 + [":snap", ":al %x" % n3, ":snap"]))
            out.append(col(p1 + [":put 0 " + tb(b"w0"), ":put %x %s" % (max(n1 - 1, 0), tb(b"wl")), ":put %x %s" % (n1, tb(b"out")), ":put %x %s" % (NPOS, tb(b"far")), ":snap"]
                           + p2 + col_reads(max(n1, n2))))
    for big in (17, 64, 300):
        out.append(col([":al %x" % big, ":put %x %s" % (big - 1, tb(b"last")), ":sp %s %s" % (tb(b"x,y"), tb(b",")), ":get 2", ":get %x" % (big - 1), ":sz",
                        ":sp %s $" % tb(b"q" * big), ":get %x" % (big - 1), ":get %x" % big, ":al 1", ":get 1"]))
    # (3) random histories
    for _ in range(400 if quick else 15000):
        hint = rng.choice([0, 1, 2, 3, 5])
        out.append(col([random_col_step(rng, hint) for _ in range(rng.randint(1, 8 if quick else 25))]))
    return out


# ---------------------------------------------------------------- aliasing: the argument points into the object's own buffer
def als(a, ops):
    return ":als %s %x %s" % (tb(a), len(ops), " ".join(ops))


def als_split(t):
    """the steps of an :als scenario as token lists"""
    ops, k = [], 3
    while k < len(t):
        n = ALS_ARITY.get(t[k])
        if n is None:
            break
        ops.append(t[k:k + 1 + n])
        k += 1 + n
    return ops


def als_step(s, o):
    """textbook value of s after one step (o = token list)"""
    w = o[0]; ks = [int(x, 16) for x in o[1:]]
    if w in (":asgp", ":ctor"):
        return s[ks[0]:]
    if w == ":appp":
        return s + s[ks[0]:]
    if w == ":apps":
        return s + s
    if w == ":repl":
        to, wi = s[ks[0]:], s[ks[1]:]
        return s.replace(to, wi) if to else s
    return s


def als_all_steps(s, mut_only=False):
    """every step that is valid on a string of this length (pointers 0 .. length)"""
    L = len(s); ks = range(L + 1)
    out = [":asgs", ":apps"] + [":%s %x" % (w, k) for w in ("asgp", "ctor", "appp") for k in ks] + [":repl %x %x" % (k1, k2) for k1 in ks for k2 in ks]
    if not mut_only:
        out += [":cmps"] + [":cmpp %x" % k for k in ks] + [":%s %x %x" % (w, k1, k2) for w in ("sstr", "scmp") for k1 in ks for k2 in ks]
    return out


def random_als(rng, a, maxops):
    s, ops = a, []
    for _ in range(rng.randint(1, maxops)):
        L = len(s); k = lambda: rng.choice([0, L, rng.randint(0, L), max(L - 1, 0), min(1, L)])
        w = rng.choice([":asgp", ":asgp", ":ctor", ":appp", ":apps", ":asgs", ":repl", ":cmpp", ":cmps", ":sstr", ":scmp"])
        if L > 600 and w in (":appp", ":apps", ":repl"):
            w = ":asgp"
        n = ALS_ARITY[w]
        o = [w] + ["%x" % k() for _ in range(n)]
        if len(als_step(s, o)) > ALS_MAXLEN:     # replace(short suffix, long suffix) multiplies the length: keep the model's quadratic lists small
            o = [":asgp", "%x" % min(1, L)]
        ops.append(" ".join(o)); s = als_step(s, o)
    return als(a, ops)


def gen_alias(tier, rng):
    out = []
    quick = tier == "quick"
    # (1) every single statement / observer with EVERY pointer into the buffer, on short texts over {a,b} (self-overlapping suffixes) and on lengths around
    #     the string-cache classes; each mutator followed by the self comparison and one more drop-a-prefix
    texts = small_strings(b"ab", 3) + [b"abab", b"aaaa", b"prefix:payload", b"unchanged", b"\x80\xffz"]
    for a in texts:
        for st in als_all_steps(a):
            tail = [":cmps"] if st.split()[0] in ALS_MUT else []
            out.append(als(a, [st] + tail))
    for L in ((31, 64, 100) if quick else (1, 30, 31, 32, 33, 63, 64, 65, 99, 100, 101, 127, 128, 129, 255, 256, 257)):
        a = nstr(rng, L, alpha=(0x61, 0x62, 0x3a))
        for k in sorted(set([0, 1, 7 % (L + 1), L // 2, L - 1, L])):
            out += [als(a, [":asgp %x" % k, ":cmps"]), als(a, [":ctor %x" % k]), als(a, [":appp %x" % k, ":asgp %x" % k]),
                    als(a, [":cmpp %x" % k, ":sstr %x %x" % (k, L - k), ":scmp %x %x" % (L - k, k)])]
            if len(als_step(a, [":repl", "%x" % k, "%x" % (L - k)])) <= ALS_MAXLEN:
                out.append(als(a, [":repl %x %x" % (k, L - k)]))
        out.append(als(a, [":apps", ":apps", ":asgs", ":asgp %x" % (2 * L)]))
    # (2) second use of the same object: every ordered pair of mutators (all pointers) on three texts, then an observer
    for a in ((b"ab", b"aba", b"aab") if quick else (b"", b"a", b"ab", b"aa", b"aba", b"aab", b"abb", b"aaa")):
        for s1 in als_all_steps(a, mut_only=True):
            mid = als_step(a, s1.split())
            if len(mid) > 8:
                continue
            for s2 in als_all_steps(mid, mut_only=True):
                out.append(als(a, [s1, s2, ":cmpp %x" % min(1, len(als_step(mid, s2.split())))]))
    # (3) random histories
    for _ in range(400 if quick else 20000):
        a = rng.choice([nstr(rng, rng.choice([0, 1, 2, 3, 5, 8, 14, 31, 32, 100])), rng.choice(texts)])
        out.append(random_als(rng, a, 6 if quick else 15))
    return out


def generate(tier, rng):
    ops = set(GROUP1 + GROUP2 + GROUP3 + GROUP4)
    return gen_alias(tier, rng) + gen_coll(tier, rng) + gen_life(ops, tier, rng) + gen_numbers(ops, tier, rng) + gen_ops(ops, tier, rng)


def nontrivial(s):
    t = s.split()
    return any(x.startswith("$") and len(x) > 1 for x in t) or len(t) > 2


def classify(s):
    t = s.split()
    labels = ["op" + t[0]]
    if t[0] == ":seq":
        ops = seq_split(t)
        labels.append("seq-length:" + ("1-2" if len(ops) <= 2 else "3-5" if len(ops) <= 5 else "6-10" if len(ops) <= 10 else ">10"))
        labels += sorted(set("seq has " + o[0] for o in ops))
        for x, y in zip(ops, ops[1:]):
            if x[0] == ":pad" and y[1] in x[1:3] and y[0] in (":app", ":appc", ":pad", ":asg", ":set", ":rs"):
                labels.append("seq: padding then %s of a padded object" % y[0])
        # chains: the object an operation returned consumed in place by the next step
        for k, x in enumerate(ops[:-1]):
            y = ops[k + 1]
            if x[0] in R_PRODUCERS and "3" in y[1:1 + _nidx(y[0])]:
                labels.append("chain: %s then %s on the returned object" % (x[0], y[0]))
                if x[0] == ":rsub" and k > 0 and ops[k - 1][0] == ":set" and ops[k - 1][1] == x[1]:
                    L = (len(ops[k - 1][2]) - 1) // 2; b = int(x[2], 16); m = int(x[3], 16)
                    labels.append("chain: %s subString then %s" % ("truncating" if b < L and m < L - b else "non-truncating", y[0]))
        return labels
    if t[0] == ":als":
        ops = als_split(t)
        a = bytes.fromhex(t[1][1:])
        labels.append("als-length:" + ("1" if len(ops) == 1 else "2-3" if len(ops) <= 3 else ">3"))
        muts = 0
        for o in ops:
            L = len(a)
            for x in o[1:]:
                k = int(x, 16)
                labels.append("als %s: pointer %s" % (o[0], "at the start" if k == 0 else "at the terminator" if k == L else "inside"))
            if o[0] in ALS_MUT:
                muts += 1
                if muts >= 2:
                    labels.append("als: second statement on the same object (%s)" % o[0])
            a = als_step(a, o)
        return sorted(set(labels))
    if t[0] == ":col":
        ops = col_split(t)
        labels.append("col-length:" + ("1" if len(ops) == 1 else "2-5" if len(ops) <= 5 else "6-12" if len(ops) <= 12 else ">12"))
        labels += sorted(set("col has " + o[0] for o in ops))
        size, used = 0, False
        for o in ops:
            if o[0] == ":sp":
                a = bytes.fromhex(o[1][1:]); d = bytes.fromhex(o[2][1:])
                labels.append("split: delimiter of %s" % ("0 bytes" if not d else "1 byte" if len(d) == 1 else "2+ bytes"))
                if len(d) >= 2:
                    toks = ref_split(a, d)
                    if len(d) > len(a):
                        labels.append("split: delimiter longer than the text")
                    if d == a:
                        labels.append("split: delimiter equal to the text")
                    if a.endswith(d):
                        labels.append("split: text ends with a multi-byte delimiter")
                    if len(toks) - (0 if a.endswith(d) else 1) > a.count(d):
                        labels.append("split: delimiter occurs overlapping itself")
                new = len(ref_split(a, d))
            elif o[0] == ":al":
                new = int(o[1], 16)
            else:
                if o[0] in (":get", ":put"):
                    labels.append("col: %s %s the range" % (o[0], "inside" if int(o[1], 16) < size else "outside"))
                continue
            if used:
                labels.append("col re-used: %s" % ("to size 0" if new == 0 else "from size 0" if size == 0 else "shrinking" if new < size else "growing" if new > size else "same size"))
            size, used = new, True
        return sorted(set(labels))
    strs = [x for x in t[1:] if x.startswith("$")]
    if strs:
        n = (len(strs[0]) - 1) // 2
        labels.append("len:" + ("0" if n == 0 else "1" if n == 1 else "2-4" if n <= 4 else "5-12" if n <= 12 else ">=100" if n >= 100 else "13-99"))
        if any(int(strs[0][i:i + 2], 16) >= 0x80 for i in range(1, len(strs[0]), 2)):
            labels.append("high-bit bytes")
    if len(strs) >= 2 and len(strs[1]) == 1:
        labels.append("empty second argument")
    return labels


def _nidx(w):
    """how many leading arguments of a sequence step are object indices"""
    return {":set": 1, ":appc": 1, ":rc": 1, ":rs": 1, ":fmt": 1, ":rep": 1, ":asg": 2, ":app": 2, ":low": 2, ":sub": 2, ":prt": 2, ":pad": 2, ":plus": 3,
            ":rcopy": 1, ":rsub": 1, ":rsub1": 1, ":rft": 1, ":rlow": 1, ":rprt": 1, ":rplus": 2, ":rsplit": 1, ":size": 1, ":at": 1, ":cmp": 2, ":cpb": 1,
            ":find": 1}.get(w, 0)


def seq_split(t):
    """the operations of a :seq scenario as token lists"""
    ops, k = [], 2
    while k < len(t):
        n = SEQ_ARITY.get(t[k])
        if n is None:
            break
        ops.append(t[k:k + 1 + n])
        k += 1 + n
    return ops


def signature(s, o):
    t = s.split()
    ot = o.split()
    if o.startswith("!"):
        kind = "crash"
    elif len(ot) >= 3 and ot[-1] == "0":
        kind = "a buffer not returned exactly once with the size it was requested with"
    else:
        kind = "wrong result"
    what = t[0]
    if t[0] == ":seq" and any(x in R_PRODUCERS for x in t):
        what = ":seq with an operation applied in place to a returned object"
    if t[0] == ":als":
        ops = als_split(t)
        what = ":als, argument inside the object's own buffer (%s)" % (ops[0][0] if len(ops) == 1 else "history")
    if t[0] == ":col":
        ops = col_split(t)
        fills = [o for o in ops if o[0] in (":sp", ":al")]
        if len(fills) >= 2:
            what = ":col, a collection filled more than once"
        elif fills and fills[0][0] == ":sp":
            dl = (len(fills[0][2]) - 1) // 2
            what = ":col, one split with a delimiter of %s" % ("0 bytes" if dl == 0 else "1 byte" if dl == 1 else "2+ bytes")
    return "%s => %s" % (what, kind)


def shrink(s):
    t = s.split()
    if t[0] == ":seq":
        ops = seq_split(t)
        for k in range(len(ops)):               # drop one operation
            rest = ops[:k] + ops[k + 1:]
            if rest:
                yield seq([" ".join(o) for o in rest])
        for k, o in enumerate(ops):             # smaller positions / amounts / counts (not the object indices, not the characters: 0 is no valid pad / delimiter)
            for q in SHRINK_NUM.get(o[0], ()):
                if o[q] not in ("0",):
                    v = int(o[q], 16)
                    for c in sorted(set([v // 2, v - 1])):
                        o2 = o[:q] + ["%x" % c] + o[q + 1:]
                        yield seq([" ".join(x) for x in ops[:k] + [o2] + ops[k + 1:]])
    if t[0] == ":als":
        ops = als_split(t); a = bytes.fromhex(t[1][1:])

        def ok(a2, ops2):                       # every pointer stays inside the buffer it points into
            cur = a2
            for o in ops2:
                if any(int(x, 16) > len(cur) for x in o[1:]):
                    return False
                cur = als_step(cur, o)
            return True
        cands = []
        for k in range(len(ops)):               # drop one step
            if len(ops) > 1:
                cands.append((a, ops[:k] + ops[k + 1:]))
        for c in (a[:len(a) // 2], a[len(a) // 2:], a[1:], a[:-1]):      # shorter text
            if c != a:
                cands.append((c, ops))
        for k, o in enumerate(ops):             # smaller offsets
            for q in range(1, len(o)):
                v = int(o[q], 16)
                if v:
                    for c in sorted(set([v // 2, v - 1])):
                        cands.append((a, ops[:k] + [o[:q] + ["%x" % c] + o[q + 1:]] + ops[k + 1:]))
        for a2, ops2 in cands:
            if ok(a2, ops2):
                yield als(a2, [" ".join(o) for o in ops2])
        return
    if t[0] == ":col":
        ops = col_split(t)
        for k in range(len(ops)):               # drop one step
            rest = ops[:k] + ops[k + 1:]
            if rest:
                yield col([" ".join(o) for o in rest])
        for k, o in enumerate(ops):             # smaller sizes / indices
            if o[0] in (":al", ":get", ":put") and o[1] != "0":
                v = int(o[1], 16)
                for c in sorted(set([v // 2, v - 1])):
                    yield col([" ".join(x) for x in ops[:k] + [[o[0], "%x" % c] + o[2:]] + ops[k + 1:]])
    for i, x in enumerate(t):
        if x.startswith("$") and len(x) > 1:
            b = bytes.fromhex(x[1:])
            cands = [b[:len(b) // 2], b[len(b) // 2:], b[1:], b[:-1]]
            for c in cands:
                if c != b and (t[0] not in (":atoi", ":atou") or num_ok(t[0][1:], c)):
                    yield " ".join(t[:i] + [tb(c)] + t[i + 1:])


LEVEL_TEXT = ("Machine-checked (Coq) theorems over a bounds-checked executable model of SimpleString.cpp written with the code's loop structure "
              "(pointers are buffer suffixes, reads/writes outside a buffer are an explicit Oob result, loops are structural or fuelled): for every "
              "modelled operation and ALL byte strings / positions, the result is Ok (memory-safe, terminating, no UB) and equals the textbook "
              "list function. Tied to the code by a differential run of the extracted model against the real class under ASan/UBSan with exact-size "
              "argument blocks, a recording string allocator (each buffer returned once with its size) and an independent std::string/libc reference. "
              "Allocation pairing: proved for every sequence of the buffer-management primitives executed by any number of objects whose lives interleave "
              "(C13_pool_pairing), with the event log of padStringsToSameLength modelled event by event; observed by the recording allocator on EVERY scenario, "
              "the window closing only after all objects of the scenario (arguments, results, temporaries, the collection of split, the three objects of an "
              "operation sequence) are destroyed. Operation sequences on four shared objects, one of them the RESULT OBJECT (the very object an operation returned, "
              "consumed in place by the next steps): every step Ok and textbook from any state whose buffers hold the textbook strings with ANY slack behind the "
              "terminator -- the recorded buffer size need not be size() + 1 -- and every observer (size, isEmpty, at, comparisons, copyToBuffer, findFrom) reports "
              "the textbook answer (C13_sequence_spec, C13_sequence_step_spec, C13_sequence_observers_spec, the *_slack_spec theorems, C13_subString_then_append); repeat, padding, "
              "split (loop lemmas of C12_Safe.v reused), subStringFromTill, StringFromMaskedBits and StringFromBinary return their textbook values "
              "(C13_scn_meets_spec: every valid scenario of the check's scenario language). The SimpleStringCollection as an object with a history: split() with a delimiter of EVERY "
              "length into a collection in ANY earlier state is Ok and leaves exactly the C strings of the textbook tokens (C13_split_any_delimiter_spec; the textbook split characterised by "
              "C13_split_textbook_token_count / _concat / _delimiter_tail / _single_byte), every history of split / allocate / col[i] = s / size() / col[i] keeps the invariant and every "
              "observer reports the textbook answer (C13_collection_history_spec, _step_spec, _observers_spec); an allocate() that keeps a big-enough array and a scan stepping over the "
              "whole delimiter are refuted variants. ALIASING (arguments pointing into the object's own buffer; heap-of-blocks model in which a released block cannot be read and the order of "
              "reading the argument and releasing the old buffer is explicit): s = s.asCharString() + k, s += s.asCharString() + k, s += s, s = s, construct-then-assign, "
              "s.replace(own + k1, own + k2) and the comparisons / StrStr / StrCmp inside one buffer are Ok and textbook for every offset and every history "
              "(C13_alias_history_spec, _step_spec, _observers_spec, C13_xscn_meets_spec over the extended scenario language); a direct operator=(const char*) that releases before "
              "reading is a refuted variant (C13_alias_assign_direct_refuted).")
LEVEL_NOTE = ("Partial for memory safety: the proofs are about the bounds-checked model; real heap accesses are seen only by ASan in the run. Trusted: "
              "Coq kernel, extraction (ExtrOcamlBasic), harness, generators, LP64. Modelled not verified: the C++ itself; vsnprintf's formatting is an "
              "oracle (decimal/hex rendering is specified and compared, not derived from libc).")
TECHNIQUE = "Coq proof over hand-written bounds-checked executable model + extracted-model/implementation correspondence check (differential, ASan/UBSan, recording allocator, independent reference)"
READY = True
