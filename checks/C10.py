"""C10 -- thread-safe allocation mode: schedule-independent accounting, no race, no hang.
Scenario:  <seed> <outalloc 0|1> <nthreads> { <nops> op*nops }*nthreads
  op ::= :a <slot> <size> <entry 0 new|1 new nothrow|2 new debug|3 new[]|4 new[] nothrow|5 new[] debug|6 malloc>
       | :f <slot> <entry 0 delete|1 delete[]|2 free> | :r <slot> <size> | :o <slot> (overrun the block by one byte)
       | :w <entry 0 delete|1 delete[]|2 free|3 realloc> (a pointer that was never allocated) | :t (next test; thread 0 only)
       | :x <slot> <how> realloc(slot, n) for an n that is turned down: how 0 n = SIZE_MAX-16, 4 n = the smallest size the detector's
         overflow guard refuses (refused before the block is looked at); 1 n = SIZE_MAX/2, 3 n = the largest size the guard admits
         (the underlying realloc fails), 2 an ordinary n with the PlatformSpecificRealloc seam made to return NULL.  The slot must be
         empty or hold an intact malloc-family block; it keeps it.
       | :s <ms> directive (counted as an item of the script, not an operation): the thread's next operation rests <ms> milliseconds
         INSIDE the locked region (the underlying allocator sleeps when it is reached with the lock held; an operation that does not
         reach it rests just before the lock is given back) while the other threads ask for the lock.
       | :e <n> sw*n epoch boundary (counted as one item; every thread's script has the same number of them, only thread 0's name
         switches): all threads finish what comes before; the test thread, alone, calls the switches sw in order (0 turnOff,
         1 turnOnDefaultNotThreadSafe, 2 turnOnThreadSafe, 3 saveAndDisable, 4 restore NewDeleteOverloads) and then a fixed probe
         (new/delete, new nothrow/delete, new debug/delete, the three of new[] with delete[], malloc, realloc, free: 15 calls);
         then all threads go on.  For thread 0 a new epoch is a new test.  Scripts run only in epochs in which the history of
         switches so far (started after turnOnThreadSafeNewDeleteOverloads) means "thread-safe": every restore closes a
         saveAndDisable, direct switches only outside save..restore, not inside a bracket, last direct switch = thread-safe.
Thread 0 runs its script as consecutive tests of a real registry on the thread that started the run; the other threads are
real pthreads running concurrently.  <seed> drives the pre-emption injected at the mutex lock/unlock seams (0 = none) and,
on the model side, the schedule.  <outalloc>: the test output allocates (through the same overloads) while printing a failure.
<overlap>: the largest number of threads seen between the return of PlatformSpecificMutexLock and the call of
PlatformSpecificMutexUnlock at one moment, minus the one thread the lock admits.
<calls> <locked> per epoch: calls of entry points the harness made (probe, script operations that are not skipped, the output's
new[]/delete[] while printing a failure) and those during which the calling thread acquired the detector's lock exactly once
(counted at the PlatformSpecificMutexLock seam).
Observation:  :ok <ntests> verdict* <wfail> <adv> <distinct> <foreign> <rest> <overlap> <n> (<thread> <slot> <size>)*n
                  <nepochs> (<calls> <locked>)*nepochs   |  :hang"""
import re
ID = "C10"
FLAVOURS = ["tsan", "noexc", "plain"]      # TSan (exceptions on) | ASan+UBSan, -fno-exceptions -fno-rtti | no sanitizer, full speed
HARNESS_SRCS = ["harness/C10.cpp"]
PER_TIMEOUT = 120.0                 # the runner's budget for a whole flavour is PER_TIMEOUT * (1 + 0.001 * scenarios): ~2300 forked TSan children take 3-4 min; a hung child is reported by the harness itself within DEADLINE
DEADLINE = "6"                      # seconds a scenario's child may take before the harness reports :hang
HARNESS_ARGS = {"tsan": (DEADLINE,), "noexc": (DEADLINE,), "plain": (DEADLINE,)}
CRASH_IS_VIOLATION = True
RULE = ("(a) every release entry point (delete, delete[], free, realloc) x every misuse kind (overrun, other family, never allocated) x "
        "output allocating or not x position in the test (first/after other operations/followed by operations that must be skipped) x "
        "0-3 concurrent workers, exhaustively; (b) worker storms: 2-16 threads x 4-120 operations over all seven allocating and four "
        "releasing entry points, sizes on {0,1,..,9,15,16,17,100,1000,4096}, releases of NULL, realloc of NULL/held blocks, thread 0 "
        "running 1-5 clean tests; (c) mixed: thread 0 with 1-6 tests holding 0-3 misuses at random positions while 1-7 workers run; "
        "(d) realloc requests that are turned down: five ways (SIZE_MAX-16, smallest size the overflow guard refuses, largest size it "
        "admits, SIZE_MAX/2, seam made to fail) x held malloc block / NULL x test thread / worker x block then freed / reallocated / "
        "still held, exhaustively, and sprinkled (7%) over the scripts of (b) and (c); (e) the holder of the lock RESTS inside the "
        "locked region (sleeping allocator seam) for 1.05-2.6 s -- in alloc, realloc (between taking the record out and putting the "
        "new one in), free, a refused realloc -- while 2-7 other threads ask for the lock, every thread without a rest of its own "
        "holding its last operation back until a rest has begun: 6 scenarios in the quick tier (2 hand-written, run as one concurrent "
        "batch), 2+16 in the thorough tier. "
        "(f) histories of the overload switches between epochs of concurrent scripts (state carried across: blocks allocated before a "
        "switch cycle are reallocated / released after it): saveAndDisable/restore once, nested 2-3 deep, interleaved nests, several "
        "cycles, turnOff then turnOnThreadSafe, cycles around and after these, and as negative controls turnOnDefault / turnOff / an "
        "open saveAndDisable (epochs in which nothing but the probe runs) followed by the way back -- 14 fixed histories x {before any "
        "operation, in the middle of the scripts} x {0, 1, 3} workers (quick tier: two of the three), 6 control pairs x {0, 2} workers, "
        "plus random multi-epoch scenarios (40 quick / 250 thorough: 2-5 epochs, 1-12 threads, misuses on the test thread); every epoch begins with a 15-call probe of all entry points by the test thread alone. "
        "Pre-emption injected at every lock/unlock (yield / short sleep by seed). non-trivial = at least two threads with operations, "
        "or a misuse")
ASSUMPTIONS = ["switches of the overloads are flipped only while no other thread is inside or about to enter an entry point (between epochs; the eleven function pointers are plain statics), every restore closes a saveAndDisable, and the three direct switches are not used inside a saveAndDisable..restore bracket",
               "only the thread that runs the tests misuses the allocator (a report ends the test by longjmp to a buffer on that thread's stack)",
               "threads pass only their own pointers (or one that was never allocated) and allocate into empty pointer variables",
               "the underlying malloc succeeds (sizes <= 64 KiB) and so does realloc except where a script asks for a size that cannot be had or makes the seam fail; the mutex is the platform's pthread mutex",
               "a realloc that is turned down is given NULL or an intact malloc-family block (not an overrun one, not one of another family)",
               "the race on the C wrapper's file-static malloc_count in TestHarness_c.cpp is outside the detector's state and suppressed"]
ALLOC_FAM = [0, 0, 0, 1, 1, 1, 2]
SIZES = [0, 1, 2, 3, 4, 5, 7, 8, 9, 15, 16, 17, 24, 100, 1000, 4096]


class Sim:
    """textbook per-thread reading of a script, only to keep generated scripts valid"""

    def __init__(self, rng, may_misuse, nslots):
        self.rng, self.may, self.ns = rng, may_misuse, nslots
        self.slots = {}
        self.skip = False
        self.ops = []

    def emit(self, o):
        self.ops.append(o)

    def size(self):
        r = self.rng
        return r.choice(SIZES) if r.random() < 0.8 else r.randrange(0, 4097)

    def free_slots(self):
        return [k for k in range(self.ns) if k not in self.slots]

    def alloc(self, k=None, e=None, sz=None):
        fs = self.free_slots()
        if k is None:
            if not fs:
                return False
            k = self.rng.choice(fs)
        e = self.rng.randrange(7) if e is None else e
        sz = self.size() if sz is None else sz
        self.emit(":a %x %x %x" % (k, sz, e))
        if not self.skip:
            self.slots[k] = [sz, ALLOC_FAM[e], False]
        return True

    def free_ok(self):
        good = [k for k, v in self.slots.items() if not v[2]]
        if not good:
            return False
        k = self.rng.choice(good)
        self.emit(":f %x %x" % (k, self.slots[k][1]))
        if not self.skip:
            del self.slots[k]
        return True

    def free_null(self):
        fs = self.free_slots()
        if not fs:
            return False
        self.emit(":f %x %x" % (self.rng.choice(fs), self.rng.randrange(3)))
        return True

    def realloc_ok(self):
        c = [k for k, v in self.slots.items() if v[1] == 2 and not v[2]] + self.free_slots()[:2]
        if not c:
            return False
        k = self.rng.choice(c)
        sz = self.size()
        self.emit(":r %x %x" % (k, sz))
        if not self.skip:
            self.slots[k] = [sz, 2, False]
        return True

    def refused(self, how=None, k=None):
        c = [k2 for k2, v in self.slots.items() if v[1] == 2 and not v[2]] * 3 + self.free_slots()[:1]
        if k is None:
            if not c:
                return False
            k = self.rng.choice(c)
        self.emit(":x %x %x" % (k, self.rng.randrange(5) if how is None else how))
        return True

    def rest(self, ms):
        self.emit(":s %x" % ms)

    def boundary(self):
        self.emit(":t")
        self.skip = False

    def epoch(self, sw=()):
        """epoch boundary; for the test thread it also starts a new test"""
        self.emit(":e %x%s" % (len(sw), "".join(" %x" % k for k in sw)))
        self.skip = False

    # misuse: kind 0 overrun, 1 other family, 2 never allocated; entry 0 delete 1 delete[] 2 free 3 realloc
    def misuse(self, entry, kind):
        assert self.may
        if kind == 2:
            self.emit(":w %x" % entry)
            self.skip = True
            return True
        fam_of_entry = [0, 1, 2, 2][entry]
        fam = fam_of_entry if kind == 0 else self.rng.choice([f for f in (0, 1, 2) if f != fam_of_entry])
        fs = self.free_slots()
        if not fs:
            return False
        k = self.rng.choice(fs)
        e = self.rng.choice([i for i in range(7) if ALLOC_FAM[i] == fam])
        self.alloc(k, e)
        if kind == 0:
            self.emit(":o %x" % k)
            if not self.skip:
                self.slots[k][2] = True
        if entry == 3:
            self.emit(":r %x %x" % (k, self.size()))
        else:
            self.emit(":f %x %x" % (k, entry))
        if not self.skip:
            del self.slots[k]
            self.skip = True
        return True

    def benign(self, n):
        r = self.rng
        for _ in range(n):
            c = r.random()
            if c < 0.45:
                self.alloc() or self.free_ok()
            elif c < 0.75:
                self.free_ok() or self.alloc()
            elif c < 0.87:
                self.realloc_ok()
            elif c < 0.94:
                self.refused() or self.realloc_ok()
            else:
                self.free_null()

    def text(self):
        return "%x %s" % (len(self.ops), " ".join(self.ops)) if self.ops else "0"


def line(seed, outalloc, threads):
    return "%x %x %x %s" % (seed, outalloc, len(threads), " ".join(t.text() for t in threads))


def exhaustive(rng):
    out = []
    for entry in range(4):
        for kind in range(3):
            for oa in (0, 1):
                for shape in range(3):
                    for nw in (0, 2):
                        t0 = Sim(rng, True, 8)
                        if shape >= 1:
                            t0.benign(3)
                        t0.misuse(entry, kind)
                        if shape == 2:
                            t0.alloc()            # must be skipped
                            t0.free_null()
                        t0.boundary()
                        t0.benign(2)              # the run continues: the next test allocates
                        ws = []
                        for _ in range(nw):
                            w = Sim(rng, False, 6)
                            w.benign(12)
                            ws.append(w)
                        out.append(line(rng.randrange(1, 1 << 20), oa, [t0] + ws))
    return out


def storm(rng, big):
    n = rng.choice([2, 2, 3, 4, 4, 6, 8, 12, 16]) if big else rng.choice([2, 3, 4, 4, 8])
    ths = []
    t0 = Sim(rng, True, 8)
    for i in range(rng.randrange(1, 6)):
        if i:
            t0.boundary()
        t0.benign(rng.randrange(0, 12))
    ths.append(t0)
    for _ in range(n - 1):
        w = Sim(rng, False, rng.choice([2, 6, 16]))
        w.benign(rng.choice([4, 12, 40, 120]) if big else rng.choice([4, 12, 40]))
        ths.append(w)
    return line(rng.randrange(0, 1 << 24) if rng.random() < 0.9 else 0, rng.randrange(2), ths)


def mixed(rng):
    t0 = Sim(rng, True, 10)
    for i in range(rng.randrange(1, 7)):
        if i:
            t0.boundary()
        t0.benign(rng.randrange(0, 6))
        for _ in range(rng.choice([0, 1, 1, 1, 2, 3])):
            t0.misuse(rng.randrange(4), rng.randrange(3))
            t0.benign(rng.randrange(0, 4))
    ths = [t0]
    for _ in range(rng.randrange(1, 8)):
        w = Sim(rng, False, rng.choice([2, 6, 16]))
        w.benign(rng.choice([4, 12, 40]))
        ths.append(w)
    return line(rng.randrange(1, 1 << 24), rng.randrange(2), ths)


def refused_family(rng):
    """(d): every way of being turned down x held malloc block / NULL x test thread / worker x what happens to the block next"""
    out = []
    for how in range(5):
        for held in (True, False):
            for on_worker in (False, True):
                for after in range(3):
                    t0, w = Sim(rng, True, 8), Sim(rng, False, 6)
                    a, b = (w, t0) if on_worker else (t0, w)
                    a.benign(2)
                    k = a.free_slots()[0]
                    if held:
                        a.alloc(k, 6)
                    a.refused(how, k)
                    if after == 0 and held:
                        a.emit(":f %x 2" % k)
                        del a.slots[k]
                    elif after == 1:
                        sz = a.size()
                        a.emit(":r %x %x" % (k, sz))
                        a.slots[k] = [sz, 2, False]
                        a.refused((how + 1) % 5, k)
                    a.benign(2)
                    b.benign(8)
                    out.append(line(rng.randrange(0, 1 << 20), 0, [t0, w]))
    return out


def rest_scenario(rng, ms, where, nthreads, on):
    """(e): thread `on` rests `ms` inside the locked region in an operation of kind `where`; the others have plenty to do"""
    ths = []
    for i in range(nthreads):
        t = Sim(rng, i == 0, 8)
        if i == 0 and rng.random() < 0.5:
            t.benign(3)
            t.boundary()
        if i == on:
            t.benign(rng.randrange(0, 3))
            k = t.free_slots()[0]
            if where == "alloc":
                t.rest(ms)
                t.alloc(k, rng.randrange(7))
            else:
                t.alloc(k, 6)
                t.rest(ms)
                if where == "realloc":
                    sz = t.size()
                    t.emit(":r %x %x" % (k, sz))
                    t.slots[k] = [sz, 2, False]
                elif where == "free":
                    t.emit(":f %x 2" % k)
                    del t.slots[k]
                else:                               # a refused realloc: 0/4 never reach the allocator, 1/2/3 do
                    t.refused({"refused-guard": rng.choice([0, 4]), "refused-underlying": rng.choice([1, 2, 3])}[where], k)
            t.benign(rng.randrange(1, 4))
        else:
            t.benign(rng.randrange(6, 16))
        ths.append(t)
    return line(rng.randrange(0, 1 << 20), 0, ths)


REST_KINDS = ["alloc", "realloc", "free", "refused-guard", "refused-underlying"]


def rest_family(tier, rng):
    if tier == "quick":
        plan = [(1150, "realloc", 3, 1), (1300, "alloc", 4, 0), (2500, "free", 3, 2), (1200, "refused-guard", 8, 5)]
    else:
        plan = [(rng.choice([1050, 1100, 1200, 1500, 2000, 2600]), REST_KINDS[i % 5], n, rng.randrange(n))
                for i in range(16) for n in [rng.choice([2, 3, 4, 8])]]
    return [rest_scenario(rng, ms, where, n, on) for ms, where, n, on in plan]


OFF, DEFAULT, SAFE, SAVE, RESTORE = 0, 1, 2, 3, 4
# histories after which the switches mean "thread-safe" ...
SAFE_HISTORIES = [[SAVE, RESTORE], [SAVE, SAVE, RESTORE, RESTORE], [SAVE, SAVE, SAVE, RESTORE, RESTORE, RESTORE],
                  [SAVE, SAVE, RESTORE, SAVE, RESTORE, RESTORE], [SAVE, RESTORE, SAVE, RESTORE], [SAVE, RESTORE] * 3,
                  [SAFE], [OFF, SAFE], [DEFAULT, SAFE], [SAVE, RESTORE, SAFE], [OFF, SAVE, RESTORE, SAFE],
                  [OFF, SAFE, SAVE, RESTORE], [DEFAULT, SAVE, RESTORE, SAFE, SAVE, SAVE, RESTORE, RESTORE], []]
# ... and pairs (history that does not, the way back): an epoch with nothing but the probe in between (negative controls)
CONTROL_HISTORIES = [([DEFAULT], [SAFE]), ([OFF], [SAFE]), ([SAVE], [RESTORE]), ([SAVE, SAVE, RESTORE], [RESTORE]),
                     ([SAVE, RESTORE, DEFAULT], [SAVE, RESTORE, SAFE]), ([DEFAULT, SAVE], [RESTORE, SAFE])]


def doc_state(hist):
    """(depth, last direct switch) or None if the history is not one the meaning speaks of"""
    depth, last = 0, SAFE
    for k in hist:
        if k == SAVE:
            depth += 1
        elif k == RESTORE:
            if depth == 0:
                return None
            depth -= 1
        else:
            if depth:
                return None
            last = k
    return depth, last


def doc_safe(hist):
    st = doc_state(hist)
    return st is not None and st == (0, SAFE)


def random_safe_chunk(rng):
    """a stretch of history that starts and ends where the switches mean thread-safe"""
    c = rng.random()
    if c < 0.55:
        out, depth = [], 0
        for _ in range(rng.choice([2, 2, 4, 4, 6, 8])):
            if depth == 0 or (depth < 3 and rng.random() < 0.5):
                out.append(SAVE)
                depth += 1
            else:
                out.append(RESTORE)
                depth -= 1
        return out + [RESTORE] * depth
    if c < 0.75:
        return rng.choice(SAFE_HISTORIES)
    if c < 0.9:
        return [rng.choice([OFF, DEFAULT]), SAFE] + ([SAVE, RESTORE] if rng.random() < 0.5 else [])
    return []


def switch_family(rng, tier):
    """(f), fixed part: every listed history x where it happens x how many workers"""
    out = []
    for hist in SAFE_HISTORIES:
        for where in ("first", "middle"):
            for nw in ((0, 1, 3) if tier != "quick" else (0, 3) if where == "first" else (1, 3)):
                ths = [Sim(rng, i == 0, 8) for i in range(1 + nw)]
                if where == "middle":
                    for t in ths:
                        t.benign(rng.randrange(3, 8))
                for i, t in enumerate(ths):
                    t.epoch(hist if i == 0 else ())
                for i, t in enumerate(ths):
                    t.benign(rng.randrange(4, 10))        # blocks from before the switches are reallocated / released here
                if rng.random() < 0.4:
                    ths[0].misuse(rng.randrange(4), rng.randrange(3))
                    ths[0].boundary()
                    ths[0].benign(2)
                out.append(line(rng.randrange(1, 1 << 20), rng.randrange(2), ths))
    for away, back in CONTROL_HISTORIES:
        for nw in (0, 2):
            ths = [Sim(rng, i == 0, 8) for i in range(1 + nw)]
            for t in ths:
                t.benign(rng.randrange(2, 6))
            for i, t in enumerate(ths):
                t.epoch(away if i == 0 else ())       # nothing runs here but the probe
            for i, t in enumerate(ths):
                t.epoch(back if i == 0 else ())
            for t in ths:
                t.benign(rng.randrange(4, 10))
            out.append(line(rng.randrange(1, 1 << 20), 0, ths))
    return out


def switchy(rng, big):
    """(f), random part: 2-5 epochs, the history grows by safe chunks and now and then by a control pair"""
    n = rng.choice([1, 2, 2, 3, 4, 6]) if not big else rng.choice([2, 3, 4, 8, 12])
    ths = [Sim(rng, i == 0, rng.choice([4, 8])) for i in range(n)]
    nep = rng.randrange(2, 6)
    first_empty = rng.random() < 0.3
    for e in range(nep):
        if e:
            if rng.random() < 0.15:
                away, back = rng.choice(CONTROL_HISTORIES)
                for i, t in enumerate(ths):
                    t.epoch(away if i == 0 else ())
                sw = back + random_safe_chunk(rng)
            else:
                sw = random_safe_chunk(rng)
            for i, t in enumerate(ths):
                t.epoch(sw if i == 0 else ())
        if e == 0 and first_empty:
            continue
        for i, t in enumerate(ths):
            k = rng.choice([0, 3, 8, 20]) if not big else rng.choice([0, 8, 30, 60])
            if i == 0:
                for j in range(rng.choice([1, 1, 2])):
                    if j:
                        t.boundary()
                    t.benign(k // 2)
                    if rng.random() < 0.25:
                        t.misuse(rng.randrange(4), rng.randrange(3))
                        t.benign(rng.randrange(0, 3))
            else:
                t.benign(k)
    return line(rng.randrange(0, 1 << 24) if rng.random() < 0.9 else 0, rng.randrange(2), ths)


def generate(tier, rng):
    out = rest_family(tier, rng)            # first: next to the rests of corpus/C10/stall.scn, one concurrent batch in the harness
    out += switch_family(rng, tier)
    for _ in range(40 if tier == "quick" else 250):
        out.append(switchy(rng, tier != "quick" and rng.random() < 0.4))
    out += exhaustive(rng)
    out += refused_family(rng)
    ns, nm = (110, 140) if tier == "quick" else (700, 1000)
    for _ in range(ns):
        out.append(storm(rng, tier != "quick" or rng.random() < 0.3))
    for _ in range(nm):
        out.append(mixed(rng))
    return out


# ----------------------------------------------------------------------------- scenario structure helpers
def parse(s):
    t = s.split()
    seed, oa, n = t[0], t[1], int(t[2], 16)
    i = 3
    ths = []
    for _ in range(n):
        k = int(t[i], 16)
        i += 1
        ops = []
        for _ in range(k):
            w = 2 + int(t[i + 1], 16) if t[i] == ":e" else {":a": 4, ":f": 3, ":r": 3, ":o": 2, ":w": 2, ":t": 1, ":x": 3, ":s": 2}[t[i]]
            ops.append(t[i:i + w])
            i += w
        ths.append(ops)
    return seed, oa, ths


def fmt(seed, oa, ths):
    return "%s %s %x %s" % (seed, oa, len(ths), " ".join(("%x " % len(o) + " ".join(" ".join(x) for x in o)).strip() for o in ths))


def misuses(ops):
    """textbook reading: list of (entry, kind) misuses that fire in a script"""
    slots, skip, res = {}, False, []
    for o in ops:
        if o[0] in (":t", ":e"):
            skip = False
            continue
        if skip:
            continue
        if o[0] == ":a":
            slots[o[1]] = [ALLOC_FAM[int(o[3], 16)], False]
        elif o[0] == ":o" and o[1] in slots:
            slots[o[1]][1] = True
        elif o[0] == ":w":
            res.append((int(o[1], 16), "never-allocated"))
            skip = True
        elif o[0] == ":f" and o[1] in slots:
            fam, bad = slots.pop(o[1])
            e = int(o[2], 16)
            if fam != e:
                res.append((e, "other-family"))
                skip = True
            elif bad:
                res.append((e, "overrun"))
                skip = True
        elif o[0] == ":r":
            if o[1] in slots:
                fam, bad = slots.pop(o[1])
                if fam != 2:
                    res.append((3, "other-family"))
                    skip = True
                elif bad:
                    res.append((3, "overrun"))
                    skip = True
                else:
                    slots[o[1]] = [2, False]
            else:
                slots[o[1]] = [2, False]
    return res


ENTRY = ["delete", "delete[]", "free", "realloc"]


def epochs_of(ths):
    """[(switches in front of the epoch, [items of thread i in it])] -- the first epoch has no switches"""
    cut = []
    for ops in ths:
        parts, cur = [], []
        for o in ops:
            if o[0] == ":e":
                parts.append(cur)
                cur = []
            else:
                cur.append(o)
        parts.append(cur)
        cut.append(parts)
    sws = [[]] + [[int(x, 16) for x in o[2:]] for o in ths[0] if o[0] == ":e"]
    n = len(sws)
    return [(sws[e], [c[e] if e < len(c) else [] for c in cut]) for e in range(n)]


def switch_labels(ths):
    eps = epochs_of(ths)
    if len(eps) == 1:
        return ["epochs:1"]
    lab = ["epochs:%s" % (len(eps) if len(eps) < 5 else "5+")]
    hist, cycles, ops_before = [], 0, False
    for sw, parts in eps:
        depth = doc_state(hist)[0] if doc_state(hist) else 0
        for k in sw:
            if k == SAVE:
                depth += 1
                if depth == 1:
                    cycles += 1
                if depth >= 2:
                    lab.append("switch:nested-save")
            elif k == RESTORE:
                depth -= 1
            else:
                lab.append("switch:" + ["turnOff", "turnOnDefault", "turnOnThreadSafe-again"][k])
        hist = hist + sw
        busy = any(any(o[0] not in (":s", ":t") for o in p) for p in parts)
        if sw and not doc_safe(hist):
            lab.append("control-epoch:" + ("inside-save" if (doc_state(hist) or (0, 0))[0] else ["off", "default", "?"][(doc_state(hist) or (0, 2))[1]]))
        if busy and cycles and doc_safe(hist):
            lab.append("scripts-after-save/restore" + ("+carried-blocks" if ops_before else ""))
        ops_before = ops_before or busy
    if cycles:
        lab.append("switch:save/restore-cycles:%s" % (cycles if cycles < 3 else "3+"))
    return lab


def nontrivial(s):
    _, _, ths = parse(s)
    return sum(1 for o in ths if o) >= 2 or bool(misuses(ths[0])) or any(o[0] == ":e" and len(o) > 2 for o in ths[0])


def classify(s):
    _, oa, ths = parse(s)
    lab = ["threads:%d" % len(ths)]
    nops = sum(len(o) for o in ths)
    lab.append("ops:" + ("0-10" if nops <= 10 else "11-50" if nops <= 50 else "51-200" if nops <= 200 else ">200"))
    ms = misuses(ths[0])
    lab.append("misuses:%d" % min(len(ms), 3))
    for e, k in set(ms):
        lab.append("misuse:%s/%s" % (ENTRY[e], k))
    if oa != "0":
        lab.append("output-allocates")
    lab.append("tests:%d" % (1 + sum(1 for o in ths[0] if o[0] == ":t")))
    if s.split()[0] == "0":
        lab.append("no-injection")
    flat = [o for ops in ths for o in ops]
    for o in flat:
        if o[0] == ":x":
            lab.append("refused-realloc:" + ["SIZE_MAX-16", "SIZE_MAX/2", "seam-fails", "largest-admitted", "smallest-refused"][int(o[2], 16)])
    lab += switch_labels(ths)
    rests = [int(o[1], 16) for o in flat if o[0] == ":s"]
    if rests:
        lab.append("holder-rests:" + ("<=1.5s" if max(rests) <= 1500 else ">1.5s"))
        for ops in ths:
            for a, b in zip(ops, ops[1:]):
                if a[0] == ":s":
                    lab.append("rest-in:" + {":a": "alloc", ":r": "realloc", ":f": "free", ":x": "refused-realloc"}.get(b[0], "other"))
    return sorted(set(lab), key=lab.index)


def signature(s, o):
    _, oa, ths = parse(s)
    ms = misuses(ths[0])
    tag = "misuse report under thread-safe overloads" if ms else "no misuse"
    if o.startswith("!"):
        m = re.search(r"ThreadSanitizer: ([\w -]+?)\s*@\s*(\S*)", o)
        return ("sanitizer/crash (%s): " % tag) + (m.group(1) + " in " + m.group(2) if m else o[:70])
    if o.startswith(":hang"):
        return "hang (%s)" % tag
    f = o.split()
    try:
        if int(f[7 + int(f[1], 16)], 16) > 0:
            return "two threads inside the locked region (%s)" % tag
        i = 8 + int(f[1], 16)
        i += 1 + 3 * int(f[i], 16)
        counts = [(int(f[i + 1 + 2 * e], 16), int(f[i + 2 + 2 * e], 16)) for e in range(int(f[i], 16))]
        hist = []
        for (sw, _), (calls, locked) in zip(epochs_of(ths), counts):
            hist = hist + sw
            if doc_safe(hist) and calls != locked:
                return ("calls of entry points without the detector's lock although the switches say thread-safe%s (%s)"
                        % (" (after saveAndDisable/restore)" if SAVE in hist else "", tag))
    except (IndexError, ValueError):
        pass
    if any(x[0] == ":x" for ops in ths for x in ops):
        return "accounting wrong, script with a refused realloc (%s)" % tag
    return "accounting wrong (%s)" % tag


def shrink(s):
    """few, coarse candidates first (every candidate costs a process; failures that need a race are not reproducible op by
    op): drop a worker, drop the output allocation, keep one half / three quarters of a script, single operations only once
    the scenario is small"""
    seed, oa, ths = parse(s)
    for i in range(len(ths) - 1, 0, -1):
        yield fmt(seed, oa, ths[:i] + ths[i + 1:])
    if oa != "0":
        yield fmt(seed, "0", ths)
    nep = sum(1 for o in ths[0] if o[0] == ":e")
    if nep:
        def cut_epoch(ops, e, keep_marker):
            """drop the items of epoch e (0-based) of one thread, and the boundary in front of it unless asked to keep it"""
            out, cur = [], 0
            for o in ops:
                if o[0] == ":e":
                    cur += 1
                    if cur == e and not keep_marker:
                        continue
                elif cur == e:
                    continue
                out.append(o)
            return out
        for e in range(nep, -1, -1):           # empty an epoch's scripts; drop a whole epoch with its switches
            c = fmt(seed, oa, [cut_epoch(ops, e, True) for ops in ths])
            if c != s and py_valid(c):
                yield c
            if e:
                c = fmt(seed, oa, [cut_epoch(ops, e, False) for ops in ths])
                if py_valid(c):
                    yield c
        for j, o in enumerate(ths[0]):         # fewer switches: drop one, drop an adjacent pair
            if o[0] == ":e" and len(o) > 2:
                sw = o[2:]
                for a, b in [(i, i + 2) for i in range(len(sw) - 1)] + [(i, i + 1) for i in range(len(sw))]:
                    rest = sw[:a] + sw[b:]
                    c = fmt(seed, oa, [ths[0][:j] + [[":e", "%x" % len(rest)] + rest] + ths[0][j + 1:]] + ths[1:])
                    if py_valid(c):
                        yield c
    for i, ops in enumerate(ths):              # a rest costs seconds per candidate: try without, and with the shortest that matters
        for j, o in enumerate(ops):
            if o[0] == ":s":
                yield fmt(seed, oa, ths[:i] + [ops[:j] + ops[j + 1:]] + ths[i + 1:])
                if int(o[1], 16) > 1100:
                    yield fmt(seed, oa, ths[:i] + [ops[:j] + [[":s", "44c"]] + ops[j + 1:]] + ths[i + 1:])
    for i, ops in enumerate(ths):
        n = len(ops)
        if n >= 4:
            q = n // 4
            for part in (ops[:n // 2], ops[n // 2:], ops[q:], ops[:n - q], ops[:q] + ops[2 * q:], ops[:2 * q] + ops[3 * q:]):
                c = fmt(seed, oa, ths[:i] + [part] + ths[i + 1:])
                if py_valid(c):
                    yield c
    if sum(len(o) for o in ths) <= 24:
        for i, ops in enumerate(ths):
            for j in range(len(ops)):
                c = fmt(seed, oa, ths[:i] + [ops[:j] + ops[j + 1:]] + ths[i + 1:])
                if py_valid(c):
                    yield c


def py_valid(s):
    """the Coq `valid`, re-read here only to filter shrink candidates"""
    try:
        _, _, ths = parse(s)
    except Exception:
        return False
    if not ths or len(ths) > 16:
        return False
    nep = sum(1 for o in ths[0] if o[0] == ":e")
    if nep > 32 or any(sum(1 for o in ops if o[0] == ":e") != nep for ops in ths):
        return False
    if any(o[0] == ":e" and len(o) > 2 for ops in ths[1:] for o in ops):
        return False
    hist = []
    for sw, parts in epochs_of(ths):
        if any(k > 4 for k in sw):
            return False
        hist = hist + sw
        if doc_state(hist) is None:
            return False
        if not doc_safe(hist) and any(any(o[0] != ":s" for o in p) for p in parts):
            return False
    for i, ops in enumerate(ths):
        slots, skip = {}, False
        for o in ops:
            if o[0] == ":e":
                skip = False
                continue
            if o[0] == ":t":
                if i:
                    return False
                skip = False
                continue
            if skip or o[0] == ":s":
                continue
            if o[0] == ":x":
                if int(o[2], 16) > 4 or (o[1] in slots and (slots[o[1]][0] != 2 or slots[o[1]][1])):
                    return False
                continue
            fail = False
            if o[0] == ":a":
                if o[1] in slots:
                    return False
                slots[o[1]] = [ALLOC_FAM[int(o[3], 16)], False]
            elif o[0] == ":o":
                if o[1] not in slots:
                    return False
                slots[o[1]][1] = True
            elif o[0] == ":w":
                fail = True
            elif o[0] == ":f" and o[1] in slots:
                fam, bad = slots.pop(o[1])
                fail = fam != int(o[2], 16) or bad
            elif o[0] == ":r":
                if o[1] in slots:
                    fam, bad = slots.pop(o[1])
                    fail = fam != 2 or bad
                if not fail:
                    slots[o[1]] = [2, False]
            if fail:
                if i:
                    return False
                skip = True
    return True


LEVEL_TEXT = ("Machine-checked (Coq) theorems over an executable interleaving model of the thread-safe overloads: N threads, each "
              "operation split into acquire / read shared state / write back / release micro-steps scheduled arbitrarily, one "
              "non-recursive lock, the detector's table and sequence counter as the shared state, the reporter's failure path "
              "(give the lock back, print -- the output may allocate through the same overloads --, leave the test).  Proved for ALL "
              "schedules and all valid scripts: mutual exclusion and atomicity of critical sections, the shared state equals the "
              "critical sections applied one after another in lock-acquisition order, the completed run satisfies the oracle (outstanding "
              "set = union of the per-thread sequential results, a misuse fails exactly its test, sequence numbers handed out once "
              "each), no reachable deadlock and every schedule can be completed, the lock is held only by a thread inside a wrapper "
              "(also after a misuse report), at most one thread is between Lock() and Unlock() in every state of every execution however "
              "long the holder rests while the others are given turns (the model's Lock never gives up: a blocked thread's step is a "
              "no-op), a realloc that is turned down (size refused by the overflow guard, or the underlying realloc failing: record "
              "taken out and put back) leaves the outstanding records, their numbers, the counter and the lock as they were; and, over the wiring table regenerated from the source on every run, that all eleven "
              "entry points take the lock first and perform the matching detector action.  The history of the overload switches (round 4): "
              "a run is a sequence of epochs of concurrent scripts separated by turnOff / turnOnDefault / turnOnThreadSafe / saveAndDisable / "
              "restore on the test thread; the switch machine of the source (eleven pointers, eleven saved_ pointers, save_counter) is "
              "proved to leave, after every well-bracketed history, the wiring that the meaning of the switches names (inside a "
              "save..restore bracket none, outside the one of the last direct switch) -- the fully locked table whenever the meaning says "
              "thread-safe, however many cycles, nested or not --; the invariants of one epoch carry over the re-arming of the threads, so "
              "mutual exclusion, atomicity, occupancy <= 1, completion hold in every state of every epoch, every call of an entry point "
              "(probe, script operation, the output's new[]/delete[]) takes the lock, and the completed multi-epoch run satisfies the "
              "oracle for all schedules; save/restore that remember only 'overloads were on' are refuted.  The pre-repair reporter (D17) and a wiring "
              "with one unlocked wrapper are refuted by computed witnesses.  Tied to the code by real pthreads (1-16) running the same "
              "scripts through new/new[]/malloc/realloc/free/delete under ThreadSanitizer, ASan+UBSan without exceptions, and "
              "unsanitized, with pre-emption injected at lock/unlock, a real test registry and the real reporter, compared with the "
              "extracted model and judged by the extracted model-free spec.  Runs in which the holder of the lock sleeps 1.05-2.6 s at "
              "the PlatformSpecificMalloc/Realloc/Free seam inside the locked region while the other threads ask for the lock: the "
              "largest number of threads between the return of Lock and the call of Unlock is counted by wrappers around the platform "
              "function pointers and must be one; realloc requests that cannot be met (five sizes / a failing seam) in the scripts.  "
              "Per epoch the harness counts the calls of entry points it makes and, per thread at the PlatformSpecificMutexLock seam, "
              "whether each call acquired the lock exactly once; the oracle demands calls = locked calls in every epoch in which the "
              "switches so far mean thread-safe.")
LEVEL_NOTE = ("PARTIAL by nature: the absence of data races and the behaviour of pthread mutexes are exhibited only by the instrumented "
              "runs (TSan silent, occupancy counter of the locked region = 1, deadline / no-progress detector), not by the theorems; a platform Lock that gives up after a time T is exhibited only by rests longer than T (the runs rest up to 2.6 s); the model carries the logic (why the lock "
              "discipline makes every schedule equivalent to a serial one).  Misuse is confined to the test thread (assumption).  "
              "Switches are flipped only between epochs (all other threads parked at a gate): a switch racing with a call is outside the model "
              "(the eleven pointers are plain statics); histories with a restore that closes nothing or a direct switch inside a "
              "save..restore bracket are excluded; in epochs in which the switches do not mean thread-safe only the 15-call probe runs "
              "(its allocation numbers are measured and subtracted by the harness); the initial value of the saved_ pointers is written in the model, not regenerated.  "
              "Trusted: Coq kernel, extraction, tools/gen/C10.py (wiring extraction by anchored patterns), harness, generator, the "
              "schedule derived from the seed in ocaml/c10_driver.ml.  Modelled not verified: the C++ itself; longjmp by its contract; "
              "the hash table as a keyed list; the output's allocation while printing as one step that needs the lock free.")
TECHNIQUE = "Coq proof over an interleaving model + wiring table regenerated from source + TSan/ASan/pthread differential run against the extracted model"
READY = True
