"""C05 -- tracked allocations return sound blocks for every size, or fail cleanly.
Scenario :  <guard 0|1> <node_size> <nfail> <failing underlying-call index>*  [:wrap]  <op>*
  :wrap  :  memory accounting on: the harness starts a GlobalMemoryAccountant, i.e. an AccountingTestMemoryAllocator sits around
            each of the three recording allocators (malloc, new, new[]) for the whole scenario.  Fault indices then also count the
            wrappers' own requests (tracking node per block, the accountant's statistics node per size).
  op     :  :m n | :dm n | :c num size | :r id|~ n | :sd $str | :sn $str n | :n n | :na n | :nt n | :nat n | :nd n | :nad n | :f id | :w id off $bytes
            (id = index of the op that produced the block; :dm = detector-level allocMemory with an inline record)
Observation: <guard> <sizeof record> <wrappers installed 0|1> <fault indices given 0|1> then per op
  | kind ncalls (ckind size ok)* addr%16 overlap offset-in-region region-size recordkind recordval digest tracked-total reports
  and  | :end nlive (id digest)* total reports leak : the blocks still live (newest first) with their content, read back before the
  harness releases every remaining block; total / reports after that release; leak = regions of the underlying allocator still
  allocated after that (and after the accountant has been stopped and destroyed).
kind: 0 skipped 1 NULL 2 bad_alloc 3 pointer 4 void.  recordkind 1 = inline at offset recordval, 2 = in another region with recordval
bytes from the record to the end of that region.  overlap = 1: user bytes + guard or record of the new block intersect those of
another live block (or each other).
With wrappers the call log also holds the wrappers' own requests (tracking nodes, the accountant's per-size nodes); the model does
not predict those: `project` reduces every call log of a wrapper observation to the facts the oracle reads of it (Coq:
C05_Wrapper.canon and C05_spec_wrap_reads_failure_only: a call other than a request for a statistics node failed / such a request
failed / a failed request gave back everything but statistics nodes) before model and implementation are compared, and drops the
end-of-scenario leak count (a block moved by realloc leaves its stale tracking node behind; the oracle bounds that).  With wrappers
AND fault indices the model cannot know which operation an index hits: `project` then keeps only the header and the number of
operations, i.e. the oracle `spec` judges the implementation's observation alone."""
import os, subprocess, hashlib, tempfile
import vlib
from vlib import tz, tb
ID = "C05"
FLAVOURS = ["asan", "noguard"]
HARNESS_SRCS = ["harness/C05.cpp"]
PER_TIMEOUT = 30.0
CRASH_IS_VIOLATION = True
W = 1 << 64
RULE = ("size sweep: every size 0..4096 through at least one separate-record entry point (malloc/realloc) and one inline-record entry point "
        "(new/new[]/nothrow/debug/detector-level), 2^k +- 0..9 for k <= 63, the top 96 values below 2^64 (crossing the overflow threshold "
        "2^64-1-(guard+8+record)), calloc pairs around 2^32 x 2^32, (2^k, 2^(64-k) +- 1), zero factors; strdup/strndup over lengths 0..40 with "
        "n in {0, len-1, len, len+1, huge}; realloc grow/shrink/same/0 chains with written content; fault enumeration: every underlying call index "
        "of a 14-allocation workload taken in turn as the failing malloc/realloc (pairs in thorough); random histories; each scenario in both "
        "builds (guard bytes on / off). With the accounting wrapper allocators installed (GlobalMemoryAccountant started; "
        "requests above 1 MiB still refused): every size 0..520 through a separate- and an inline-record entry point, every 5th boundary size "
        "and the sizes around the overflow threshold, a quarter of the calloc pairs, a third of the strings, realloc chains, the workload, "
        "random histories; faults under the wrappers: each underlying call index 0..8 (block, tracking node, statistics node, leak record "
        "and its nodes, underlying realloc, statistics node requested by a release) of twelve short workloads over malloc, new, new[], "
        "nothrow, debug new, realloc of a live / NULL / inline-record block, calloc, strdup/strndup and mixed families sharing a size "
        "(every index of the long workload and pairs in thorough), half of the random wrapper histories with fault indices. "
        "non-trivial = at least one allocation-like op")
ASSUMPTIONS = ["LP64 (size_t 64 bit, pointer 8 bytes)", "the underlying allocator returns fresh, suitably aligned regions of the requested size or NULL "
               "(libc malloc/realloc behind the recording seam; requests above 1 MiB are refused by the seam)",
               "sizeof(MemoryLeakDetectorNode) is a multiple of 8 below 2^16 (measured by the harness, echoed in every observation)",
               "with the accounting wrappers installed a request for a statistics node of the accountant is recognised by its size "
               "(sizeof(MemoryAccountantAllocationNode) = 6 words, re-read from the source): a refused one need not fail the allocation, and "
               "statistics nodes may outlive a failed request",
               "with the wrappers AND fault indices the model's observation is compared with the implementation's only in the header and the "
               "number of operations (the model does not predict the wrappers' own requests, hence not which operation an index hits): the "
               "oracle alone judges those runs"]

_ns = None


def node_size():
    """sizeof(MemoryLeakDetectorNode) of the tree under test (compiled once per header content)."""
    global _ns
    if _ns is None:
        hdr = open(os.path.join(vlib.REPO, "include/CppUTest/MemoryLeakDetector.h"), "rb").read()
        key = hashlib.sha256(hdr).hexdigest()[:16]
        cache = os.path.join(vlib.BUILD, "c05-nodesize-" + key)
        if os.path.exists(cache):
            _ns = int(open(cache).read())
        else:
            with tempfile.TemporaryDirectory() as d:
                src = os.path.join(d, "n.cpp")
                open(src, "w").write('#include <cstdio>\n#include "CppUTest/TestHarness.h"\n#include "CppUTest/MemoryLeakDetector.h"\n#undef new\n'
                                     'int main(){printf("%zu",sizeof(MemoryLeakDetectorNode));return 0;}\n')
                exe = os.path.join(d, "n")
                subprocess.run(["g++", "-std=c++17", "-w"] + vlib.CONFIG_DEFS + ["-I" + vlib.REPO + "/include", "-c", src, "-o", exe + ".o"], check=True)
                # sizeof needs no library: link without it by compiling only the needed TU
                subprocess.run(["g++", exe + ".o", "-o", exe, "-Wl,--unresolved-symbols=ignore-all"], check=True)
                _ns = int(subprocess.run([exe], stdout=subprocess.PIPE, check=True).stdout.decode())
            os.makedirs(vlib.BUILD, exist_ok=True)
            open(cache, "w").write(str(_ns))
    return _ns


ARITY = {":m": 1, ":dm": 1, ":c": 2, ":r": 2, ":sd": 1, ":sn": 2, ":n": 1, ":na": 1, ":nt": 1, ":nat": 1, ":nd": 1, ":nad": 1, ":f": 1, ":w": 3}
ALLOCS = (":m", ":dm", ":c", ":r", ":sd", ":sn", ":n", ":na", ":nt", ":nat", ":nd", ":nad")
NOP = [":f", "ffffffff"]


def is_wrap(s):
    return " :wrap" in s


def parse(s):
    t = s.split()
    g, ns, nf = int(t[0], 16), int(t[1], 16), int(t[2], 16)
    fails = [int(x, 16) for x in t[3:3 + nf]]
    ops, i = [], 3 + nf
    if i < len(t) and t[i] == ":wrap":
        i += 1
    while i < len(t):
        k = ARITY[t[i]]
        ops.append(t[i:i + 1 + k])
        i += 1 + k
    return g, ns, fails, ops


def unparse(g, ns, fails, ops, wrap=False):
    return " ".join(["%x" % g, "%x" % ns, "%x" % len(fails)] + ["%x" % f for f in fails] + ([":wrap"] if wrap else []) + [x for o in ops for x in o])


def both(fails, ops, wrap=False):
    ns = node_size()
    body = " ".join(ops) if isinstance(ops, list) else ops
    head = " ".join(["%x" % len(fails)] + ["%x" % f for f in fails])
    if wrap:
        body = ":wrap " + body
    return ["1 %x %s %s" % (ns, head, body), "0 %x %s %s" % (ns, head, body)]


SEP_KINDS = [":m", ":r ~"]
INL_KINDS = [":n", ":na", ":nt", ":nat", ":nd", ":nad", ":dm"]
# short workloads for the fault enumeration under the wrappers: with wrappers one tracked malloc makes up to six underlying
# requests (block, its tracking node, statistics node of the size; leak record, its tracking node, its statistics node), a release may
# ask for a statistics node (size 0: a block the wrapper does not know, i.e. one moved by realloc), so indices 0..8 reach the second or
# third operation
WRAP_FAULT_WORKLOADS = [
    [":m 10", ":m 10", ":f 0", ":m 31"],                                              # malloc: second one finds the statistics nodes
    [":n 8", ":n 8", ":f 0", ":n 9", ":f 1"],                                         # new
    [":na 14", ":f 0", ":na 14", ":na 15"],                                           # new[]
    [":m 5", ":w 0 0 $0102030405", ":r 0 40", ":f 2", ":m 5"],                        # realloc of a live block, release of the moved block
    [":r ~ 9", ":w 0 0 $0a0b0c", ":r 0 1e", ":r 2 0", ":f 3"],                        # realloc(NULL) and chains
    [":c 3 5", ":c 3 5", ":c 0 7", ":f 1"],                                           # calloc
    [":sd $68656c6c6f", ":sn $616263 2", ":sd $", ":f 0"],                            # strdup / strndup
    [":nt 5", ":nat 7", ":nt 5", ":f 1"],                                             # nothrow new / new[]
    [":dm e", ":w 0 0 $0102", ":r 0 28", ":dm e", ":f 2"],                            # inline-record block reallocated
    [":m 8", ":n 8", ":na 8", ":f 0", ":f 1", ":f 2"],                                # three wrappers, one accountant
    [":nd 9", ":nad 9", ":m 200001", ":f 0", ":nd 9"],                                # debug new, a refusal by size in between
    [":r ~ 9", ":f 0", ":m 9", ":f 2"],                                               # release of a block the wrapper does not know: statistics node of size 0 (index 4)
]
WORKLOAD = [":m a", ":dm 14", ":n 8", ":c 3 5", ":sd $68656c6c6f", ":r 0 28", ":r 1 32", ":na 7", ":nt 5", ":sn $616263 2", ":r 5 5",
            ":r ~ 9", ":nat 0", ":w 6 2 $0102", ":r 6 40", ":f 2", ":m 3", ":r 10 0", ":f 7"]


def sizes_boundary():
    """2^k +- 0..9 and the top 96 sizes; between 4 KiB and the seam's 1 MiB limit only a few (the model materialises contents)."""
    out = set()
    for k in range(0, 64):
        for d in range(0, 10):
            if (12 < k <= 16 and d > 1) or (16 < k <= 20 and d > 0):
                continue
            out.add((1 << k) + d)
            if (1 << k) - d >= 0:
                out.add((1 << k) - d)
    for d in range(1, 97):
        out.add(W - d)
    for d in (-72, -64, -8, -3):      # requests that land on / just over the seam's limit once the bookkeeping is added
        out.add((1 << 20) + d)
    return sorted(x for x in out if 0 <= x < W)


def is_big(n):
    return 4096 < n <= (1 << 20) + 16


def generate(tier, rng):
    out = []
    # 1. every size 0..4096: one separate-record and one inline-record entry point each, kinds rotating
    ops, k = [], 0
    for n in range(0, 4097):
        ops.append("%s %x" % (SEP_KINDS[n % 2], n))
        ops.append("%s %x" % (INL_KINDS[n % 7], n))
        if len(ops) >= 16:
            out += both([], ops)
            ops = []
    if ops:
        out += both([], ops)
    # 2. boundary sizes through every kind; realloc of an existing block to the size
    bs = sizes_boundary()
    allk = SEP_KINDS + INL_KINDS
    for j, n in enumerate(bs):
        ks = allk if (n >= W - 100 or (tier == "thorough" and not is_big(n))) else [allk[j % len(allk)], allk[(j + 3) % len(allk)], ":m"]
        if is_big(n):
            ks = [SEP_KINDS[j % 2], INL_KINDS[j % 7]] if n < (1 << 17) else [(SEP_KINDS + INL_KINDS)[j % 9]]
        ops = ["%s %x" % (kk, n) for kk in ks]
        if not is_big(n) or (j % 4 == 0 and n < (1 << 17)):
            ops += [":m 5", ":w %x 0 $0102030405" % len(ops), ":r %x %x" % (len(ops), n), ":dm 6", ":r %x %x" % (len(ops) + 3, n)]
        out += both([], ops)
    # 3. calloc
    pairs = set()
    for a in range(0, 12):
        for b in range(0, 12):
            pairs.add((a, b))
    for d1 in range(-3, 4):
        for d2 in range(-3, 4):
            pairs.add(((1 << 32) + d1, (1 << 32) + d2))
    for k in range(1, 64):
        for d in (-1, 0, 1):
            pairs.add((1 << k, (1 << (64 - k)) + d))
            pairs.add(((1 << (64 - k)) + d, 1 << k))
    for big in (W - 1, W - 2, (W - 1) // 3, (W - 1) // 3 + 1, (1 << 63), (1 << 63) + 1):
        for small in (0, 1, 2, 3):
            pairs.add((big, small))
            pairs.add((small, big))
    for a, b in ((1 << 10, 1 << 10), (3, 349525), (3, 349526), (100, 100), (255, 257), (17, 241)):
        pairs.add((a, b))
    pl = sorted(pairs)
    for i in range(0, len(pl), 6):
        out += both([], [":c %x %x" % p for p in pl[i:i + 6]])
    # 4. strdup / strndup
    strs = [bytes((97 + (i * 7 + j) % 26) for j in range(i)) for i in range(0, 41)] + [b"ab\x00cd", b"\x00", b"\xff\x80\x01", bytes(range(1, 200))]
    for s in strs:
        l = len(s.split(b"\x00")[0])
        ns_ = sorted(set(x for x in (0, 1, l - 1, l, l + 1, 2 * l + 3, 1 << 32, W - 1) if 0 <= x < W))
        out += both([], [":sd " + tb(s)] + [":sn %s %x" % (tb(s), n) for n in ns_])
    # 5. realloc chains with content
    for n1 in (0, 1, 7, 8, 13, 64, 65, 100, 4000):
        for n2 in (0, 1, n1 - 1, n1, n1 + 1, 2 * n1 + 5, 70, 5000, 1 << 20, (1 << 20) + 1, W - 1):
            if not 0 <= n2 < W or (is_big(n2) and n2 > 5000 and n1 != 8):
                continue
            data = bytes((i * 37 + 11) % 256 for i in range(min(n1, 90)))
            for first in (":m", ":dm"):
                if first == ":dm" and is_big(n2) and n2 > 5000:
                    continue
                ops = ["%s %x" % (first, n1), ":w 0 0 " + tb(data), ":r 0 %x" % n2, ":r 2 %x" % n1, ":w 3 0 " + tb(data[:5]), ":r 3 %x" % (n2 // 2)]
                out += both([], ops)
    # 6. fault enumeration over the workload: every underlying call index fails in turn
    ncalls = 40
    for k in range(ncalls):
        out += both([k], WORKLOAD)
    if tier == "thorough":
        for k in range(ncalls):
            for k2 in range(k + 1, min(k + 6, ncalls)):
                out += both([k, k2], WORKLOAD)
    # 7. random histories
    nrand = 250 if tier == "quick" else 6000
    out += random_histories(rng, nrand, allk, False)
    # 8. the same entry points with the accounting wrapper allocators installed (memory accounting on)
    out += with_wrappers(tier, rng, bs, pl, strs, allk)
    return out


def with_wrappers(tier, rng, bs, pl, strs, allk):
    """Scenarios run under GlobalMemoryAccountant::start(): an AccountingTestMemoryAllocator between every entry point and the
    recording allocator.  Alignment, usable bytes, disjointness, contents, totals and clean refusal (by size, and at fault indices) are judged as
    without wrappers (see ASSUMPTIONS for the two differences)."""
    out = []
    thorough = tier == "thorough"
    # every size 0..520 (4096 in thorough): one separate-record and one inline-record entry point each
    ops = []
    for n in range(0, 4097 if thorough else 521):
        ops.append("%s %x" % (SEP_KINDS[(n // 16) % 2], n))
        ops.append("%s %x" % (INL_KINDS[n % 7], n))
        if len(ops) >= 16:
            out += both([], ops, True)
            ops = []
    if ops:
        out += both([], ops, True)
    # boundary sizes: every 5th (all in thorough), and everything around the overflow threshold; a realloc to the size
    for j, n in enumerate(bs):
        top = n >= W - 100
        if not (thorough or j % 5 == 0 or (top and j % 2 == 0)):
            continue
        if is_big(n) and not (thorough or j % 40 == 0):      # the model materialises contents: few blocks between 4 KiB and 1 MiB
            continue
        ks = [allk[j % len(allk)], allk[(j + 4) % len(allk)]]
        if is_big(n):
            ks = ks[:1]
        ops = ["%s %x" % (kk, n) for kk in ks]
        if not is_big(n):
            ops += [":m 5", ":w %x 0 $0102030405" % len(ops), ":r %x %x" % (len(ops), n)]
        out += both([], ops, True)
    # calloc pairs, strings
    step = 1 if thorough else 4
    for i in range(0, len(pl), 6 * step):
        out += both([], [":c %x %x" % q for q in pl[i:i + 6]], True)
    for s in strs[::(1 if thorough else 3)]:
        l = len(s.split(b"\x00")[0])
        ns_ = sorted(set(x for x in (0, l - 1, l, l + 1, W - 1) if 0 <= x < W))
        out += both([], [":sd " + tb(s)] + [":sn %s %x" % (tb(s), n) for n in ns_], True)
    # realloc chains with content (the reallocation itself does not pass through the wrapper, the release of the moved block does)
    for n1 in (0, 1, 8, 13, 64, 100):
        for n2 in (0, 1, n1 - 1, n1 + 1, 2 * n1 + 5, 5000, (1 << 20) + 1, W - 1):
            if not 0 <= n2 < W or (n2 == 5000 and n1 != 8 and not thorough):
                continue
            data = bytes((i * 37 + 11) % 256 for i in range(min(n1, 90)))
            for first in (":m", ":dm"):
                ops = ["%s %x" % (first, n1), ":w 0 0 " + tb(data), ":r 0 %x" % n2, ":r 2 %x" % n1, ":m %x" % n1, ":f 3", ":n %x" % n1, ":r 4 %x" % (n2 // 2 if n2 < 6000 else 77)]
                out += both([], ops, True)
    out += both([], WORKLOAD, True)
    # faults under the wrappers: every underlying call index 0..8 of each short workload (the n-th underlying call fails, the
    # wrappers' own node requests and the accountant's nodes included)
    for wl in WRAP_FAULT_WORKLOADS:
        for k in range(0, 16 if thorough else 9):
            out += both([k], wl, True)
    if thorough:
        for k in range(0, 70):
            out += both([k], WORKLOAD, True)
        for wl in WRAP_FAULT_WORKLOADS:
            for k in range(0, 10):
                for k2 in range(k + 1, k + 4):
                    out += both([k, k2], wl, True)
    out += random_histories(rng, 1500 if thorough else 80, allk, True)
    return out


def random_histories(rng, nrand, allk, wrap):
    out = []
    for h in range(nrand):
        ops, allocs = [], []
        for i in range(rng.randrange(3, 22)):
            c = rng.random()
            small = rng.choice([0, 1, 3, 8, 15, 16, 17, 63, 64, 65, 200, rng.randrange(0, 600)])
            n = small if rng.random() < 0.85 else rng.choice([W - 1 - rng.randrange(0, 90), ((1 << 20) + rng.randrange(-80, 3)) if h % 16 == 0 else (1 << 20) + 9, 1 << rng.randrange(21, 64)])
            if c < 0.42:
                ops.append("%s %x" % (rng.choice(allk), n)); allocs.append(i)
            elif c < 0.5:
                ops.append(":c %x %x" % (rng.choice([0, 1, 2, 5, 1 << 32, W - 1]), rng.choice([0, 1, 3, 9, 1 << 32, (1 << 32) + 1]))); allocs.append(i)
            elif c < 0.58:
                s = bytes(rng.randrange(1, 256) for _ in range(rng.randrange(0, 12)))
                ops.append(":sd " + tb(s) if rng.random() < 0.5 else ":sn %s %x" % (tb(s), rng.randrange(0, 15))); allocs.append(i)
            elif c < 0.75 and allocs:
                ops.append(":r %x %x" % (rng.choice(allocs), n)); allocs.append(i)
            elif c < 0.9 and allocs:
                ops.append(":f %x" % rng.choice(allocs))
            elif allocs:
                ops.append(":w %x %x %s" % (rng.choice(allocs), rng.randrange(0, 9), tb(bytes(rng.randrange(256) for _ in range(rng.randrange(0, 9))))))
            else:
                ops.append(":m %x" % small); allocs.append(i)
        if wrap:      # half of the wrapper histories with fault indices (they also count the wrappers' own requests: up to ~6 per operation)
            fails = sorted(set(rng.randrange(0, 60) for _ in range(rng.choice([1, 1, 2, 4])))) if h % 2 else []
        else:
            fails = sorted(set(rng.randrange(0, 30) for _ in range(rng.choice([0, 0, 1, 1, 2, 4]))))
        out += both(fails, ops, wrap)
    return out


def applies(s, flavour):
    t = s.split()
    return (t[0] == "1") == (flavour == "asan") and int(t[1], 16) == node_size()


_acct = None


def acct_node_size():
    """sizeof(MemoryAccountantAllocationNode) as the translator-lite plugin re-read it from the source (coq/gen/Gen_C05.v)."""
    global _acct
    if _acct is None:
        import re
        txt = open(os.path.join(vlib.ROOT, "coq", "gen", "Gen_C05.v")).read()
        _acct = int(re.search(r"c05_accountant_node_size : N := (\d+)%N", txt).group(1))
    return _acct


def canon_calls(kind, calls):
    """C05_Wrapper.canon_calls: the three facts the oracle reads of a call log with the wrappers installed."""
    st = "%x" % acct_node_size()
    is_stat = lambda c: c[0] == "0" and c[1] == st
    hard = any(c[2] == "0" and not is_stat(c) for c in calls)
    stat = any(c[2] == "0" and is_stat(c) for c in calls)
    got = sum(1 for c in calls if c[0] != "2" and c[2] == "1")
    freed = sum(1 for c in calls if c[0] == "2")
    sgot = sum(1 for c in calls if is_stat(c) and c[2] == "1")
    wbal = max(got - sgot, 0) <= freed <= got
    out = ([["0", "0", "0"]] if hard else []) + ([["0", st, "0"]] if stat else []) + ([["0", "0", "1"]] if kind in ("1", "2") and not wbal else [])
    return ["%x" % len(out)] + [x for c in out for x in c]


def project(obs, flavour):
    """Observation of a wrapper scenario (third token 1).  Without fault indices: every call log becomes the facts the oracle reads
    of it (C05_Wrapper.canon_calls, C05_spec_wrap_reads_failure_only) and the end-of-scenario leak count is dropped (stale tracking
    nodes of blocks moved by realloc: bounded by the oracle, not predicted by the model); every other component is compared as it is.
    With fault indices (fourth token 1): header and number of operations only -- the model does not predict the wrappers' own underlying
    requests, hence not which operation an index hits; the oracle judges the implementation's observation alone.
    Observations without wrappers are compared as they are."""
    t = obs.split()
    if len(t) < 4 or t[2] != "1" or obs.startswith("!"):
        return obs
    if t[3] == "1":
        return " ".join(t[:4] + [":ops", "%x" % (sum(1 for x in t if x == "|") - 1)])
    out, i = t[:4], 4
    try:
        while i < len(t):
            if t[i] != "|":
                return obs
            if t[i + 1] == ":end":
                out += t[i:-1] + ["-"]
                break
            nc = int(t[i + 2], 16)
            flat = t[i + 3:i + 3 + 3 * nc]
            out += [t[i], t[i + 1]] + canon_calls(t[i + 1], [flat[3 * k:3 * k + 3] for k in range(nc)])
            j = i + 3 + 3 * nc
            out += t[j:j + 9]
            i = j + 9
    except (IndexError, ValueError):
        return obs
    return " ".join(out)


def nontrivial(s):
    return any(o[0] in ALLOCS for o in parse(s)[3])


def sizeclass(n):
    if n <= 4096:
        return "0..4096"
    if n <= (1 << 20):
        return "..1MiB"
    if n >= W - 100:
        return "top100"
    return "huge"


def classify(s):
    g, ns, fails, ops = parse(s)
    lab = set(["guard" if g else "noguard"])
    if is_wrap(s):
        lab.add("accounting wrappers installed")
    if fails:
        lab.add("faults:%d" % min(len(fails), 3))
        if is_wrap(s):
            lab.add("faults under the accounting wrappers")
    for o in ops:
        lab.add("op" + o[0])
        if o[0] in (":m", ":dm", ":n", ":na", ":nt", ":nat", ":nd", ":nad"):
            lab.add("size " + sizeclass(int(o[1], 16)))
        if o[0] == ":r":
            lab.add("size " + sizeclass(int(o[2], 16)))
        if o[0] == ":c":
            lab.add("calloc product " + ("overflow" if int(o[1], 16) * int(o[2], 16) >= W else sizeclass(int(o[1], 16) * int(o[2], 16))))
    return sorted(lab)


def signature(s, o):
    g, ns, fails, ops = parse(s)
    kinds = sorted(set(x[0] for x in ops if x[0] in ALLOCS))
    what = "crash " + o.split("@")[0].strip()[:60] if o.startswith("!") else "spec"
    if is_wrap(s):      # one replay per build and kind of failure: what differs from the scenarios without wrappers is the wrapper, not the entry point
        return "%s+wrappers %s" % ("guard" if g else "noguard", what)
    return "%s %s faults=%d ops=%s" % ("guard" if g else "noguard", what, len(fails), ",".join(kinds))


REFPOS = {":r": 1, ":f": 1, ":w": 1}


def drop_op(ops, i):
    """Delete op i.  Block ids are op indices: a reference to i becomes dangling (that op is then skipped), later ones move down."""
    out = []
    for j, o in enumerate(ops):
        if j == i:
            continue
        o = list(o)
        if o[0] in REFPOS and o[REFPOS[o[0]]] != "~":
            k = int(o[REFPOS[o[0]]], 16)
            if k == i:
                o[REFPOS[o[0]]] = "ffffffff"
            elif i < k < 0xffffffff:
                o[REFPOS[o[0]]] = "%x" % (k - 1)
        out.append(o)
    return out


def shrink(s):
    for c in shrink_ops(s):
        yield c
    if is_wrap(s):          # does it also fail without the wrappers?
        g, ns, fails, ops = parse(s)
        yield unparse(g, ns, fails, ops)


def shrink_ops(s):
    g, ns, fails, ops = parse(s)
    wrap = is_wrap(s)
    if ops:
        yield unparse(g, ns, fails, ops[:-1], wrap)
    # delete an op (renumbering the ids behind it); the underlying call indices move, so also try the fault points moved down
    for i in range(len(ops)):
        rest = drop_op(ops, i)
        yield unparse(g, ns, fails, rest, wrap)
        for d in (1, 2):
            if fails and min(fails) >= d:
                yield unparse(g, ns, [f - d for f in fails], rest, wrap)
    for i in range(len(ops)):
        if ops[i] != NOP:
            yield unparse(g, ns, fails, ops[:i] + [NOP] + ops[i + 1:], wrap)
    for i in range(len(fails)):
        yield unparse(g, ns, fails[:i] + fails[i + 1:], ops, wrap)
    # smaller sizes / shorter strings in the last op
    if ops and ops[-1][0] in (":w",) and len(ops[-1][3]) > 3:
        yield unparse(g, ns, fails, ops[:-1] + [ops[-1][:3] + [ops[-1][3][:-2]]], wrap)


LEVEL_TEXT = ("Machine-checked (Coq) theorems over an executable model of allocMemory/reallocMemory/deallocMemory with the size arithmetic written "
              "modulo 2^64 (guard bytes, pointer alignment, inline or separate leak record), cpputest_calloc/strdup/strndup and the operator new "
              "variants, against an oracle underlying allocator: layout soundness for every size, rejection of every overflowing size/product, "
              "clean failure at every fault point (nothing lost, everything still tracked), disjointness of live blocks and records over all "
              "histories, content theorems for realloc/calloc/strdup/strndup. Tied to the code by a differential run of the extracted model "
              "against the real entry points over recording allocator seams under ASan/UBSan, in the builds with and without guard bytes, "
              "without and with the accounting wrapper allocators installed (GlobalMemoryAccountant started), fault points included; the "
              "wrapper's alloc/free and the accountant's node requests are modelled, proved transparent for address, alignment and size and "
              "proved to fail cleanly (NULL, nothing recorded, nothing left allocated when the block or the tracking node is refused; the "
              "block still served when only a statistics node is refused), and the oracle on wrapper scenarios is proved to demand everything "
              "it demands without wrappers except the sizes of the underlying calls, a refused statistics node not failing the allocation and "
              "statistics nodes outliving a failed request.")
LEVEL_NOTE = ("Partial: the model is bounds-checked, so the logic of memory safety is proved; actual heap accesses are seen only by ASan in the runs. "
              "Trusted: Coq kernel, extraction, harness (seams, region bookkeeping), generators, LP64. Modelled not verified: the C++ itself; libc "
              "malloc/realloc behind the seam (the byte copy of a realloc is libc's, the model states its contract); the default allocators' "
              "FAIL-on-NULL path (checkedMalloc) is not exercised; disjointness of different blocks is proved relative to the oracle handing out "
              "non-overlapping regions (C05_live_disjoint); in the runs the harness compares the address ranges of all live blocks and records "
              "(overlap flag, judged by the oracle) and ASan watches the accesses. With the wrappers installed the model does not predict the "
              "wrappers' own underlying requests (call logs compared only through the three facts the oracle reads of them); with wrappers and "
              "fault indices together it therefore does not predict which operation fails: the oracle alone judges those runs (model and "
              "implementation compared in header and operation count only); the accountant's statistics are not part of the property; its "
              "statistics requests are recognised by their size.")
TECHNIQUE = "Coq proof over hand-written executable model + extracted-model/implementation correspondence check (differential, boundary sweep + fault enumeration)"
READY = True
