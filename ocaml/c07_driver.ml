(* C07 driver.  Scenario:  <mode> <tbd> <pre> <ntests> { <before> <ipre> <setup> <body> <teardown> <ipost> } <tail>
     list ::= <n> stmt*n      stmt ::= :a id size kind | :f id | :r id size | :x | :e n | :i
   (mode = how the harness reaches the detector -- 0 local detector handed to the plugin, 1 the global detector through
    new / new [] / malloc -- it does not exist in the model: the observation has to be the same for both).
   Observation: <err> <ntests> { nfail nleak noleaks many total k (num size)^k } <stray> <empty> <noleaks> <many> <total> k (num size)^k *)
let stmt c =
  match next c with
  | ":a" -> let id = n_tok (next c) in let sz = n_tok (next c) in let k = n_tok (next c) in SAlloc (id, sz, k)
  | ":f" -> SFree (n_tok (next c))
  | ":r" -> let id = n_tok (next c) in let sz = n_tok (next c) in SRealloc (id, sz)
  | ":x" -> SFail
  | ":e" -> SExpect (n_tok (next c))
  | ":i" -> SIgnore
  | t -> raise (Bad ("statement " ^ t))
let scenario ts =
  let c = { rest = ts } in
  let _mode = next c in
  let tbd = n_tok (next c) in
  let pre = counted c stmt in
  let tests = counted c (fun c -> let b = counted c stmt in let ip = counted c stmt in let s = counted c stmt in let bo = counted c stmt in
                                  let td = counted c stmt in let ipo = counted c stmt in
                                  { t_before = b; t_ipre = ip; t_setup = s; t_body = bo; t_teardown = td; t_ipost = ipo }) in
  let tail = counted c stmt in
  if not (at_end c) then raise (Bad "trailing tokens");
  { s_pre = pre; s_tests = tests; s_tail = tail; s_tbd = tbd }
let key (a, b) = (int_of_n a, int_of_n b)
let pents es =
  let es = List.sort (fun x y -> compare (key x) (key y)) es in
  Printf.sprintf "%x" (List.length es) :: List.concat_map (fun (a, b) -> [pn a; pn b]) es
let ptest i = [pn i.ti_fail; pn i.ti_leak; pbool i.ti_noleaks; pbool i.ti_many; pn i.ti_total] @ pents i.ti_entries
let run_line ts =
  let s = scenario ts in
  if not (valid s) then raise (Bad "scenario is not valid (block id in use / out of range, realloc of a new/new[] block, or a flag statement outside a test)") else
  let o = run s in
  String.concat " " ([pbool o.o_err; Printf.sprintf "%x" (List.length o.o_tests)] @ List.concat_map ptest o.o_tests
                     @ [pn o.o_stray; pbool o.o_empty; pbool o.o_noleaks; pbool o.o_many; pn o.o_total] @ pents o.o_entries)
let ents c = counted c (fun c -> let a = n_tok (next c) in let b = n_tok (next c) in (a, b))
let spec_line ts os =
  let s = scenario ts in
  if not (valid s) then true (* not a program the property speaks about (only the shrinker makes them): not judged *) else
  let c = { rest = os } in
  let err = bool_tok (next c) in
  let tests = counted c (fun c -> let f = n_tok (next c) in let l = n_tok (next c) in let nl = bool_tok (next c) in let m = bool_tok (next c) in
                                  let t = n_tok (next c) in let e = ents c in
                                  { ti_fail = f; ti_leak = l; ti_noleaks = nl; ti_many = m; ti_total = t; ti_entries = e }) in
  let stray = n_tok (next c) in let empty = bool_tok (next c) in let nl = bool_tok (next c) in let m = bool_tok (next c) in
  let t = n_tok (next c) in let e = ents c in
  if not (at_end c) then false else
  spec s { o_err = err; o_tests = tests; o_stray = stray; o_empty = empty; o_noleaks = nl; o_many = m; o_total = t; o_entries = e }
