(* C07 driver.  Scenario:  <mode> <tbd> <pre> <ntests> { <before> <ipre> <setup> <body> <teardown> <ipost> } <tail>
     list ::= <n> stmt*n
     stmt ::= :a id size kind | :f id | :r id size | :x | :e n | :i                     (the runner's plugin / its detector / the macros)
            | :pn j shared | :pd j                                                      (q[j] = new MemoryLeakWarningPlugin(...) / delete q[j])
            | :pa j id size | :pf j id | :pr j id size                                  (through q[j]'s private detector)
            | :pb j | :pe j | :pq j k                                                   (q[j]->preTestAction / ->postTestAction / ->FinalReport(k))
   (mode = how the harness reaches the runner's detector -- 0 local detector handed to the plugin, 1 the global detector through
    new / new [] / malloc -- it does not exist in the model: the observation has to be the same for both).
   Observation: <err> <ntests> { nfail nleak noleaks many total k (num size)^k } <stray> <empty> <noleaks> <many> <total> k (num size)^k
                <nsec> { 0 j nfail nleak noleaks many total k (num size)^k  |  1 j empty noleaks many total k (num size)^k } *)
let bstmt t c =
  match t with
  | ":a" -> let id = n_tok (next c) in let sz = n_tok (next c) in let k = n_tok (next c) in SAlloc (id, sz, k)
  | ":f" -> SFree (n_tok (next c))
  | ":r" -> let id = n_tok (next c) in let sz = n_tok (next c) in SRealloc (id, sz)
  | ":x" -> SFail
  | ":e" -> SExpect (n_tok (next c))
  | ":i" -> SIgnore
  | t -> raise (Bad ("statement " ^ t))
let two = Npos (XO XH)
let stmt c =
  match next c with
  | ":pn" -> let j = n_tok (next c) in let sh = bool_tok (next c) in MNew (j, sh)
  | ":pd" -> MDel (n_tok (next c))
  | ":pa" -> let j = n_tok (next c) in let id = n_tok (next c) in let sz = n_tok (next c) in MOn (j, SAlloc (id, sz, two))
  | ":pf" -> let j = n_tok (next c) in MOn (j, SFree (n_tok (next c)))
  | ":pr" -> let j = n_tok (next c) in let id = n_tok (next c) in let sz = n_tok (next c) in MOn (j, SRealloc (id, sz))
  | ":pb" -> MPre (n_tok (next c))
  | ":pe" -> MPost (n_tok (next c))
  | ":pq" -> let j = n_tok (next c) in let k = n_tok (next c) in MFinal (j, k)
  | t -> MS (bstmt t c)
let scenario ts =
  let c = { rest = ts } in
  let _mode = next c in
  let tbd = n_tok (next c) in
  let pre = counted c stmt in
  let tests = counted c (fun c -> let b = counted c stmt in let ip = counted c stmt in let s = counted c stmt in let bo = counted c stmt in
                                  let td = counted c stmt in let ipo = counted c stmt in
                                  { mt_before = b; mt_ipre = ip; mt_setup = s; mt_body = bo; mt_teardown = td; mt_ipost = ipo }) in
  let tail = counted c stmt in
  if not (at_end c) then raise (Bad "trailing tokens");
  { m_pre = pre; m_tests = tests; m_tail = tail; m_tbd = tbd }
let key (a, b) = (int_of_n a, int_of_n b)
let pents es =
  let es = List.sort (fun x y -> compare (key x) (key y)) es in
  Printf.sprintf "%x" (List.length es) :: List.concat_map (fun (a, b) -> [pn a; pn b]) es
let ptest i = [pn i.ti_fail; pn i.ti_leak; pbool i.ti_noleaks; pbool i.ti_many; pn i.ti_total] @ pents i.ti_entries
let psec = function
  | SIPost (j, i) -> ["0"; pn j] @ ptest i
  | SIFinal (j, e, nl, m, t, es) -> ["1"; pn j; pbool e; pbool nl; pbool m; pn t] @ pents es
let run_line ts =
  let s = scenario ts in
  if not (mvalid s) then raise (Bad "scenario is not valid (block id in use / out of range, realloc of a new/new[] block, a flag statement outside a test, or a statement about another plugin instance where the property does not speak about it)") else
  let m = mrun s in
  let o = m.mo_main in
  String.concat " " ([pbool (o.o_err || m.mo_err); Printf.sprintf "%x" (List.length o.o_tests)] @ List.concat_map ptest o.o_tests
                     @ [pn o.o_stray; pbool o.o_empty; pbool o.o_noleaks; pbool o.o_many; pn o.o_total] @ pents o.o_entries
                     @ [Printf.sprintf "%x" (List.length m.mo_sec)] @ List.concat_map psec m.mo_sec)
let ents c = counted c (fun c -> let a = n_tok (next c) in let b = n_tok (next c) in (a, b))
let titem c =
  let f = n_tok (next c) in let l = n_tok (next c) in let nl = bool_tok (next c) in let m = bool_tok (next c) in
  let t = n_tok (next c) in let e = ents c in
  { ti_fail = f; ti_leak = l; ti_noleaks = nl; ti_many = m; ti_total = t; ti_entries = e }
let spec_line ts os =
  let s = scenario ts in
  if not (mvalid s) then true (* not a program the property speaks about (only the shrinker makes them): not judged *) else
  let c = { rest = os } in
  let err = bool_tok (next c) in
  let tests = counted c titem in
  let stray = n_tok (next c) in let empty = bool_tok (next c) in let nl = bool_tok (next c) in let m = bool_tok (next c) in
  let t = n_tok (next c) in let e = ents c in
  let sec = counted c (fun c -> match next c with
                                | "0" -> let j = n_tok (next c) in SIPost (j, titem c)
                                | "1" -> let j = n_tok (next c) in let em = bool_tok (next c) in let nl = bool_tok (next c) in
                                         let m = bool_tok (next c) in let t = n_tok (next c) in let e = ents c in SIFinal (j, em, nl, m, t, e)
                                | t -> raise (Bad ("instance item " ^ t))) in
  if not (at_end c) then false else
  mspec s { mo_main = { o_err = err; o_tests = tests; o_stray = stray; o_empty = empty; o_noleaks = nl; o_many = m; o_total = t; o_entries = e };
            mo_err = err; mo_sec = sec }
