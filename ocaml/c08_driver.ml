(* C08 driver: scenario = list of mock operations, each on mock() or on a named scope; see checks/C08.py for the token grammar *)
let ity_of = function 0 -> TInt | 1 -> TUInt | 2 -> TLong | 3 -> TULong | 4 -> TLLong | 5 -> TULLong | _ -> raise (Bad "ity")
let int_of_ity = function TInt -> 0 | TUInt -> 1 | TLong -> 2 | TULong -> 3 | TLLong -> 4 | TULLong -> 5
let value c =
  match next c with
  | ":b" -> PBool (bool_tok (next c))
  | ":i" -> let t = ity_of (int_tok (next c)) in PInt (t, z_tok (next c))
  | ":s" -> PStr (bytes_tok (next c))
  | ":p" -> PPtr (z_tok (next c))
  | t -> raise (Bad ("value tag " ^ t))
let pvalue = function
  | PBool b -> ":b " ^ pbool b
  | PInt (t, z) -> Printf.sprintf ":i %x %s" (int_of_ity t) (pz z)
  | PStr s -> ":s " ^ pbytes s
  | PPtr a -> ":p " ^ pz a
let params c = counted c (fun c -> let n = n_tok (next c) in let v = value c in (n, v))
let outs c = counted c (fun c -> let n = n_tok (next c) in let b = bytes_tok (next c) in (n, b))
let item c =
  match next c with
  | ":in" -> let n = n_tok (next c) in let v = value c in IIn (n, v)
  | ":out" -> let n = n_tok (next c) in let b = bytes_tok (next c) in IOut (n, b)
  | ":obj" -> IObj (z_tok (next c))
  | t -> raise (Bad ("item tag " ^ t))
let optret c = if peek c = Some "~" then (ignore (next c); None) else Some (value c)
let op c =
  match next c with
  | ":e" -> let n = n_tok (next c) in let f = n_tok (next c) in let ps = params c in
            let ret = optret c in
            let ign = bool_tok (next c) in OExpect (n, f, ps, [], None, ret, ign)
  | ":E" -> let n = n_tok (next c) in let f = n_tok (next c) in let ps = params c in let os = outs c in
            let obj = (if peek c = Some "~" then (ignore (next c); None) else Some (z_tok (next c))) in
            let ret = optret c in
            let ign = bool_tok (next c) in OExpect (n, f, ps, os, obj, ret, ign)
  | ":c" -> let f = n_tok (next c) in let ps = params c in let want = bool_tok (next c) in
            OCall (f, List.map (fun (n, v) -> IIn (n, v)) ps, want)
  | ":C" -> let f = n_tok (next c) in let its = counted c item in let want = bool_tok (next c) in OCall (f, its, want)
  | ":chk" -> OCheck | ":clr" -> OClear | ":strict" -> OStrict | ":ign" -> OIgnoreOtherCalls
  | ":en" -> OEnable | ":dis" -> ODisable | ":left" -> OLeft | ":post" -> OPost
  | t -> raise (Bad ("op " ^ t))
(* ":s <scope>" before an operation: the operation is made on mock("s<scope>") instead of mock() *)
let sop c = if peek c = Some ":s" then (ignore (next c); let s = n_tok (next c) in let o = op c in (s, o)) else (N0, op c)
let rec ops c = if at_end c then [] else let o = sop c in o :: ops c
let pkind = function
  | FUnexpectedCall f -> Printf.sprintf ":unexpected %s 0" (pn f)
  | FAdditionalCall (f, n) -> Printf.sprintf ":additional %s %s" (pn f) (pn n)
  | FParamName (f, p) -> Printf.sprintf ":pname %s %s" (pn f) (pn p)
  | FParamValue (f, p) -> Printf.sprintf ":pvalue %s %s" (pn f) (pn p)
  | FParamMissing (f, l) -> Printf.sprintf ":pmissing %s %s" (pn f) (pn l)
  | FObjectMissing f -> Printf.sprintf ":omissing %s 0" (pn f)
  | FNotFulfilled -> ":unfulfilled 0 0"
  | FOutOfOrder -> ":order 0 0"
  | FCannotHappen -> ":cannot 0 0"
  | FOutName (f, p) -> Printf.sprintf ":oname %s %s" (pn f) (pn p)
  | FOutType (f, p) -> Printf.sprintf ":otype %s %s" (pn f) (pn p)
  | FObjectUnexpected f -> Printf.sprintf ":ounexpected %s 0" (pn f)
let ppairs l = String.concat " " (Printf.sprintf "%x" (List.length l) :: List.map (fun (a, b) -> pn a ^ " " ^ pn b) l)
let pfailure fl = String.concat " " [pkind fl.f_kind; ppairs fl.f_unf; ppairs fl.f_ful]
let pobs o =
  let f = match o.o_fail with
    | None -> "~"
    | Some (i, fl) -> String.concat " " [pn i; pfailure fl] in
  String.concat " " (f :: Printf.sprintf "%x" (List.length o.o_rets) :: List.map (function None -> ":n" | Some v -> pvalue v) o.o_rets
                     @ Printf.sprintf "%x" (List.length o.o_outs) :: List.map pbytes o.o_outs
                     @ Printf.sprintf "%x" (List.length o.o_left) :: List.map pbool o.o_left
                     @ Printf.sprintf "%x" (List.length o.o_post) :: List.map pfailure o.o_post)
(* parse an observation back (for the oracle) *)
let kind_of c =
  let k = next c in let a = next c in let b = next c in
  match k with
  | ":unexpected" -> FUnexpectedCall (n_tok a)
  | ":additional" -> FAdditionalCall (n_tok a, n_tok b)
  | ":pname" -> FParamName (n_tok a, n_tok b)
  | ":pvalue" -> FParamValue (n_tok a, n_tok b)
  | ":pmissing" -> FParamMissing (n_tok a, n_tok b)
  | ":omissing" -> FObjectMissing (n_tok a)
  | ":unfulfilled" -> FNotFulfilled
  | ":order" -> FOutOfOrder
  | ":cannot" -> FCannotHappen
  | ":oname" -> FOutName (n_tok a, n_tok b)
  | ":otype" -> FOutType (n_tok a, n_tok b)
  | ":ounexpected" -> FObjectUnexpected (n_tok a)
  | t -> raise (Bad ("kind " ^ t))
let pairs c = counted c (fun c -> let a = n_tok (next c) in let b = n_tok (next c) in (a, b))
let obs_cur c =
  let fail = (if peek c = Some "~" then (ignore (next c); None) else
    let i = n_tok (next c) in let k = kind_of c in let u = pairs c in let f = pairs c in
    Some (i, { f_kind = k; f_unf = u; f_ful = f })) in
  let rets = counted c (fun c -> if peek c = Some ":n" then (ignore (next c); None) else Some (value c)) in
  let outs = counted c (fun c -> bytes_tok (next c)) in
  let left = counted c (fun c -> bool_tok (next c)) in
  let post = counted c (fun c -> let k = kind_of c in let u = pairs c in let f = pairs c in { f_kind = k; f_unf = u; f_ful = f }) in
  { o_fail = fail; o_rets = rets; o_outs = outs; o_left = left; o_post = post }
let obs_of os =
  let c = { rest = os } in
  let o = obs_cur c in
  if not (at_end c) then raise (Bad "trailing tokens") else o
let scenario ts =
  let o = ops { rest = ts } in
  if not (valid o) then raise (Bad "value out of range of its type / output buffer size") else o
(* a run of several tests with the MockSupportPlugin installed: ":T step*" per test; step = mock operation | ":ok" (a check of the
   test's own that passes) | ":bad" (one that fails).  Observation: ":run n (own total obs)*" *)
let is_run ts = (match ts with ":T" :: _ -> true | _ -> false)
(* a run whose tests have a teardown section: ":T step* [:D (:chk | :clr | :s n :chk | :s n :clr)*]" *)
let is_runt ts = List.mem ":D" ts
let rec steps c =
  if at_end c || peek c = Some ":T" || peek c = Some ":D" then [] else
  let s = (match peek c with
    | Some ":ok" -> ignore (next c); TCheck true
    | Some ":bad" -> ignore (next c); TCheck false
    | _ -> TOp (sop c)) in
  s :: steps c
let rec tdsteps c = if at_end c || peek c = Some ":T" then [] else let o = sop c in o :: tdsteps c
let rec tests c =
  if at_end c then [] else begin
    (if next c <> ":T" then raise (Bad "expected :T"));
    let t = steps c in
    (if peek c = Some ":D" then raise (Bad "teardown in a run without teardowns"));
    t :: tests c
  end
let rec ttests c =
  if at_end c then [] else begin
    (if next c <> ":T" then raise (Bad "expected :T"));
    let b = steps c in
    let td = (if peek c = Some ":D" then (ignore (next c); tdsteps c) else []) in
    { tt_body = b; tt_td = td } :: ttests c
  end
let run_scenario ts =
  let r = tests { rest = ts } in
  if not (valid_run r) then raise (Bad "invalid run (value out of range / :post inside a test)") else r
let runt_scenario ts =
  let r = ttests { rest = ts } in
  if not (valid_runt r) then raise (Bad "invalid run (value out of range / :post inside a test / teardown not made of :chk and :clr)") else r
let ptobs o = String.concat " " [pbool o.to_own; pn o.to_total; pobs o.to_obs]
let pruns l = String.concat " " (":run" :: Printf.sprintf "%x" (List.length l) :: List.map ptobs l)
let pxobs o = String.concat " " ([pbool o.x_own; pn o.x_total; Printf.sprintf "%x" (List.length o.x_td)]
                                 @ List.map (fun (j, fl) -> pn j ^ " " ^ pfailure fl) o.x_td @ [pobs o.x_obs])
let prunt l = String.concat " " (":runt" :: Printf.sprintf "%x" (List.length l) :: List.map pxobs l)
let runs_of os =
  let c = { rest = os } in
  (if next c <> ":run" then raise (Bad "expected :run"));
  let l = counted c (fun c -> let own = bool_tok (next c) in let total = n_tok (next c) in let o = obs_cur c in
                              { to_obs = o; to_own = own; to_total = total }) in
  if not (at_end c) then raise (Bad "trailing tokens") else l
let runt_of os =
  let c = { rest = os } in
  (if next c <> ":runt" then raise (Bad "expected :runt"));
  let l = counted c (fun c -> let own = bool_tok (next c) in let total = n_tok (next c) in
                              let td = counted c (fun c -> let j = n_tok (next c) in let k = kind_of c in let u = pairs c in let f = pairs c in
                                                           (j, { f_kind = k; f_unf = u; f_ful = f })) in
                              let o = obs_cur c in
                              { x_obs = o; x_own = own; x_td = td; x_total = total }) in
  if not (at_end c) then raise (Bad "trailing tokens") else l
let run_line ts =
  if is_runt ts then
    prunt (match Sys.getenv_opt "C08_REPORTER" with
           | Some "always" -> runs_t_gen rep_always plugin_post (runt_scenario ts)
           | _ -> runs_t (runt_scenario ts))
  else if is_run ts then
    pruns (match Sys.getenv_opt "C08_PLUGIN" with
           | Some "runwide" -> runs_gen plugin_runwide (run_scenario ts)
           | Some "always" -> runs_gen plugin_always (run_scenario ts)
           | Some "noclear" -> runs_gen plugin_noclear (run_scenario ts)
           | _ -> runs (run_scenario ts))
  else pobs ((if Sys.getenv_opt "C08_OLD" <> None then runw_old else runw) (scenario ts))
(* C08_JUDGED=1: answer "is the scenario judged by the spec" instead (coverage statistics of checks/C08.py) *)
let judged_ops o =
  (match parsew o with
   | Some k -> judgedw k
   | None -> (match post_to_check o with
              | Some ops' -> (match parsew ops' with Some k -> judgedw k | None -> false)
              | None -> false))
let judged_ttest t =
  own_fails t.tt_body ||
  (match t.tt_td with
   | [] -> judged_ops (ops_before t.tt_body @ [(N0, OPost)])
   | (N0, OCheck) :: _ -> judged_ops (ops_before t.tt_body @ [(N0, OCheck)])
   | _ -> false)
let spec_line ts os =
  if is_runt ts then
    (if Sys.getenv_opt "C08_JUDGED" <> None then List.for_all judged_ttest (runt_scenario ts)
     else spec_runt (runt_scenario ts) (runt_of os))
  else if is_run ts then
    (if Sys.getenv_opt "C08_JUDGED" <> None then
       List.for_all (fun t -> own_fails t || judged_ops (ops_before t @ [(N0, OPost)])) (run_scenario ts)
     else spec_run (run_scenario ts) (runs_of os))
  else if Sys.getenv_opt "C08_JUDGED" <> None then judged_ops (scenario ts)
  else specw (scenario ts) (obs_of os)
