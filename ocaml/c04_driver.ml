(* C04 driver.  Scenario: <layout 0|1> op*   (the layout -- inline or separate bookkeeping node -- does not exist in the model:
   the observation has to be the same for both).
   op ::= :a addr size kind file line | :f addr|~ kind | :r addr|~ newaddr size kind file line
        | :dis | :en | :start | :stop | :inc | :dec | :das | :mark | :clr p | :q | :rep p         (p = enum MemLeakPeriod 0..3)
        | :af size kind file line w | :rf addr|~ size kind file line w
          (the underlying allocator call fails: w = 1 the block -- alloc_memory / PlatformSpecificRealloc returns NULL --,
           w = 2 the separate bookkeeping record -- allocMemoryLeakNode returns NULL; layout 0 has no such call: the block)
   Observation: one item per :f/:r/:af/:rf/:das/:q/:rep:
        F nonalloc other | S nonalloc other | T all dis en chk
        | R noleaks toomany total mallocnote k (addr size number file line kind)^k | E
   (F of a failing request: other = a failure was reported or the request did not answer NULL) *)
let period_of = function 0 -> PAll | 1 -> PDisabled | 2 -> PEnabled | 3 -> PChecking | _ -> raise (Bad "period")
let optaddr s = if s = "~" then None else Some (n_tok s)
let rec ops c =
  if at_end c then [] else
  let o = match next c with
    | ":a" -> let a = n_tok (next c) in let sz = n_tok (next c) in let k = n_tok (next c) in let f = n_tok (next c) in let l = n_tok (next c) in OpAlloc (a, sz, k, f, l)
    | ":f" -> let a = optaddr (next c) in let k = n_tok (next c) in OpFree (a, k)
    | ":r" -> let a = optaddr (next c) in let na = n_tok (next c) in let sz = n_tok (next c) in let k = n_tok (next c) in
              let f = n_tok (next c) in let l = n_tok (next c) in OpRealloc (a, na, sz, k, f, l)
    | ":dis" -> OpDisable | ":en" -> OpEnable | ":start" -> OpStart | ":stop" -> OpStop
    | ":inc" -> OpInc | ":dec" -> OpDec | ":das" -> OpStageFree | ":mark" -> OpMark
    | ":clr" -> OpClear (period_of (int_tok (next c)))
    | ":q" -> OpTotals
    | ":rep" -> OpReport (period_of (int_tok (next c)))
    | ":af" -> let sz = n_tok (next c) in let k = n_tok (next c) in let f = n_tok (next c) in let l = n_tok (next c) in
               let w = n_tok (next c) in OpAllocFail (sz, k, f, l, w)
    | ":rf" -> let a = optaddr (next c) in let sz = n_tok (next c) in let k = n_tok (next c) in let f = n_tok (next c) in
               let l = n_tok (next c) in let w = n_tok (next c) in OpReallocFail (a, sz, k, f, l, w)
    | t -> raise (Bad ("op " ^ t)) in
  o :: ops c
let scenario ts = let c = { rest = ts } in let _layout = next c in ops c
let key e = (int_of_n e.e_number, int_of_n e.e_addr, int_of_n e.e_size, int_of_n e.e_file, int_of_n e.e_line, int_of_n e.e_kind)
let pentry e = String.concat " " [pn e.e_addr; pn e.e_size; pn e.e_number; pn e.e_file; pn e.e_line; pn e.e_kind]
let pitem = function
  | OF (na, oth) -> "F " ^ pbool na ^ " " ^ pbool oth
  | OT (a, b, c, d) -> String.concat " " ["T"; pn a; pn b; pn c; pn d]
  | OR (nl, many, tot, ents, mn) ->
      let es = List.sort (fun x y -> compare (key x) (key y)) ents in
      String.concat " " (["R"; pbool nl; pbool many; pn tot; pbool mn; Printf.sprintf "%x" (List.length es)] @ List.map pentry es)
  | OS (na, oth) -> "S " ^ pn na ^ " " ^ pn oth
  | OErr -> "E"
let run_line ts = let o = scenario ts in
  if not (valid o) then raise (Bad "invalid scenario (address in use / allocator kind mismatch)") else String.concat " " (List.map pitem (run o))
let rec items c =
  if at_end c then [] else
  let i = match next c with
    | "F" -> let a = bool_tok (next c) in let b = bool_tok (next c) in OF (a, b)
    | "S" -> let a = n_tok (next c) in let b = n_tok (next c) in OS (a, b)
    | "T" -> let a = n_tok (next c) in let b = n_tok (next c) in let d = n_tok (next c) in let e = n_tok (next c) in OT (a, b, d, e)
    | "R" -> let nl = bool_tok (next c) in let many = bool_tok (next c) in let tot = n_tok (next c) in let mn = bool_tok (next c) in
             let es = counted c (fun c -> let a = n_tok (next c) in let s = n_tok (next c) in let n = n_tok (next c) in let f = n_tok (next c) in
                                          let l = n_tok (next c) in let k = n_tok (next c) in
                                          { e_addr = a; e_size = s; e_number = n; e_file = f; e_line = l; e_kind = k }) in
             OR (nl, many, tot, es, mn)
    | "E" -> OErr
    | t -> raise (Bad ("item " ^ t)) in
  i :: items c
(* an invalid scenario (only the shrinker produces them) is outside the property's quantifier: not a failing input *)
let spec_line ts os = let o = scenario ts in if not (valid o) then true else spec o (items { rest = os })
