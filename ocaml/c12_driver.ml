(* C12 driver: scenario = <time> <n> <arg>*n <nopts> <opt>*  |  :seq ... (below); see checks/C12.py for the annotation grammar;
   observation = parse part (:rej .. | :ok ..) followed, for an accepted vector, by the applied part (:skip | :app ..) *)
let fk = function 0 -> FContains | 1 -> FStrict | 2 -> FExclude | 3 -> FExcludeStrict | _ -> raise (Bad "filter kind")
let optdigits c = optbytes_tok (next c)
let opt c =
  match next c with
  | ":h" -> DHelp | ":v" -> DVerbose | ":vv" -> DVeryVerbose | ":c" -> DColor | ":p" -> DSepProcess | ":b" -> DReverse
  | ":lg" -> DListGroups | ":ln" -> DListNames | ":ll" -> DListLocations | ":ri" -> DRunIgnored | ":f" -> DCrashOnFail
  | ":e" -> DNoRethrow | ":ci" -> DCI
  | ":r" -> DRepeat (optdigits c)
  | ":s" -> DShuffle (optdigits c)
  | ":g" -> let k = fk (int_tok (next c)) in DGroup (k, bytes_tok (next c))
  | ":n" -> let k = fk (int_tok (next c)) in DName (k, bytes_tok (next c))
  | ":t" -> let k = fk (int_tok (next c)) in let g = bytes_tok (next c) in DGroupDotName (k, g, bytes_tok (next c))
  | ":T" -> let i = bool_tok (next c) in let g = bytes_tok (next c) in DTest (i, g, bytes_tok (next c))
  | ":o" -> DOutput (match int_tok (next c) with 0 -> NNormal | 1 -> NEclipse | 2 -> NJUnit | 3 -> NTeamCity | _ -> raise (Bad "output"))
  | ":k" -> DPackage (bytes_tok (next c))
  | t -> raise (Bad ("option " ^ t))
let scenario ts =
  let c = { rest = ts } in
  let tm = n_tok (next c) in
  let argv = counted c (fun c -> bytes_tok (next c)) in
  let opts = if at_end c then [] else counted c opt in
  (tm, argv, opts)
let pfilters l = [Printf.sprintf "%x" (List.length l)] @ List.concat_map (fun f -> [pbytes f.f_pat; pbool f.f_strict; pbool f.f_invert]) l
let pobs = function
  | ORejected (h, r, p) -> String.concat " " [":rej"; pbool h; pn r; (match p with PNothing -> "0" | PUsage -> "1" | PHelp -> "2" | POther -> "3")]
  | OAccepted (c, sel) ->
      String.concat " " ([":ok"; pbool c.c_verbose; pbool c.c_veryverbose; pbool c.c_color; pbool c.c_sep; pbool c.c_listg; pbool c.c_listn;
                          pbool c.c_listl; pbool c.c_runign; pbool c.c_rev; pbool c.c_crash; pbool c.c_rethrow; pbool c.c_shuf;
                          pn c.c_seed; pn c.c_repeat; (match c.c_out with OEclipse -> "0" | OJUnit -> "1" | OTeamCity -> "2"); pbytes c.c_pkg]
                         @ pfilters c.c_gf @ pfilters c.c_nf @ List.map pbool sel)
  | OUnknown -> ":unknown-dispatch-rule"
(* the applied part:  :skip | :app <nouts> (kind pkg level colour)* <text> <nreps> (level colour <n> seed* <n> started* <n> ran* <n> sep* )* *)
let pkind = function OEclipse -> "0" | OJUnit -> "1" | OTeamCity -> "2"
let pnlist l = String.concat " " (Printf.sprintf "%x" (List.length l) :: List.map pn l)
let papplied = function
  | ASkipped -> ":skip"
  | AApplied (outs, text, reps) ->
      String.concat " " ([":app"; Printf.sprintf "%x" (List.length outs)]
                         @ List.concat_map (fun o -> [pkind o.o_kind; pbytes o.o_pkg; pn o.o_level; pbool o.o_color]) outs
                         @ [pbytes text; Printf.sprintf "%x" (List.length reps)]
                         @ List.concat_map (fun r -> [pn r.r_level; pbool r.r_color; pnlist r.r_seeds; pnlist r.r_started; pnlist r.r_ran; pnlist r.r_sep]) reps)
let pxobs x = match x.x_applied with None -> pobs x.x_parse | Some a -> pobs x.x_parse ^ " " ^ papplied a
(* the second scenario kind:  :seq <tm> <np> {<name> <kind>} <fail mask> <k> {<n> {<arg>}} {<nopts> {<opt>}}   (k vectors, then k annotations)
   observation:  :seq { :big | :c <printed> <srand calls> <n> {ran} <m> {tag} } ( :end | :hang | :died ) *)
let seq_scenario ts =
  let c = { rest = ts } in
  let tm = n_tok (next c) in
  let ps = counted c (fun c -> let nm = n_tok (next c) in (nm, n_tok (next c))) in
  let mask = n_tok (next c) in
  let k = int_tok (next c) in
  let vs = many c k (fun c -> counted c (fun c -> bytes_tok (next c))) in
  let os = if at_end c then List.map (fun _ -> []) vs else many c k (fun c -> counted c opt) in
  if not (at_end c) then raise (Bad "trailing tokens") else
  SSequence (tm, ps, mask, List.combine vs os)
let pprinted = function PNothing -> "0" | PUsage -> "1" | PHelp -> "2" | POther -> "3"
let pcall = function
  | CBig -> ":big"
  | CCall (p, seeds, ran, tags) -> String.concat " " [":c"; pprinted p; pn seeds; pnlist ran; pnlist tags]
let pfinish = function FEnd -> ":end" | FHang -> ":hang" | FDied -> ":died"
let pyobs = function
  | YVector x -> pxobs x
  | YSequence (calls, fin) -> String.concat " " ([":seq"] @ List.map pcall calls @ [pfinish fin])
let scenario_of ts =
  match ts with
  | ":seq" :: r -> seq_scenario r
  | _ -> let (tm, argv, opts) = scenario ts in SVector (tm, argv, opts)
let run_line ts =
  let s = scenario_of ts in
  if not (yvalid s) then raise (Bad "scenario is not valid (NUL/non-byte in an argument, or more than 9 digits handed to AtoI)")
  else pyobs (yrun s)
let filters c = counted c (fun c -> let p = bytes_tok (next c) in let s = bool_tok (next c) in { f_pat = p; f_strict = s; f_invert = bool_tok (next c) })
let obs_of_cur c =
  match next c with
  | ":rej" -> let h = bool_tok (next c) in let r = n_tok (next c) in
              ORejected (h, r, (match next c with "0" -> PNothing | "1" -> PUsage | "2" -> PHelp | _ -> POther))
  | ":ok" ->
      let b () = bool_tok (next c) in
      let v = b () in let vv = b () in let co = b () in let p = b () in let lg = b () in let ln = b () in let ll = b () in
      let ri = b () in let rv = b () in let f = b () in let re = b () in let sh = b () in
      let seed = n_tok (next c) in let rep = n_tok (next c) in
      let out = (match next c with "0" -> OEclipse | "1" -> OJUnit | "2" -> OTeamCity | _ -> raise (Bad "output kind")) in
      let pkg = bytes_tok (next c) in
      let gf = filters c in let nf = filters c in
      let sel = many c 14 (fun c -> bool_tok (next c)) in
      OAccepted ({ c_verbose = v; c_veryverbose = vv; c_color = co; c_sep = p; c_listg = lg; c_listn = ln; c_listl = ll; c_runign = ri;
                   c_rev = rv; c_crash = f; c_rethrow = re; c_shuf = sh; c_seed = seed; c_repeat = rep; c_out = out; c_pkg = pkg;
                   c_gf = gf; c_nf = nf }, sel)
  | _ -> OUnknown
let applied_of c =
  let nlist c = counted c (fun c -> n_tok (next c)) in
  if at_end c then None else
  match next c with
  | ":skip" -> Some ASkipped
  | ":app" ->
      let outs = counted c (fun c ->
        let k = (match next c with "0" -> OEclipse | "1" -> OJUnit | "2" -> OTeamCity | _ -> raise (Bad "output kind")) in
        let p = bytes_tok (next c) in let l = n_tok (next c) in { o_kind = k; o_pkg = p; o_level = l; o_color = bool_tok (next c) }) in
      let text = bytes_tok (next c) in
      let reps = counted c (fun c ->
        let l = n_tok (next c) in let co = bool_tok (next c) in let seeds = nlist c in let st = nlist c in let ran = nlist c in
        { r_level = l; r_color = co; r_seeds = seeds; r_started = st; r_ran = ran; r_sep = nlist c }) in
      Some (AApplied (outs, text, reps))
  | t -> raise (Bad ("applied part " ^ t))
let xobs_of os =
  let c = { rest = os } in
  let o = obs_of_cur c in
  let a = applied_of c in
  if not (at_end c) then raise (Bad "trailing tokens") else { x_parse = o; x_applied = a }
let yobs_of os =
  match os with
  | ":seq" :: r ->
      let c = { rest = r } in
      let nlist c = counted c (fun c -> n_tok (next c)) in
      let rec calls acc =
        match next c with
        | ":big" -> calls (CBig :: acc)
        | ":c" ->
            let p = (match next c with "0" -> PNothing | "1" -> PUsage | "2" -> PHelp | _ -> POther) in
            let seeds = n_tok (next c) in let ran = nlist c in let tags = nlist c in
            calls (CCall (p, seeds, ran, tags) :: acc)
        | ":end" -> (List.rev acc, FEnd) | ":hang" -> (List.rev acc, FHang) | ":died" -> (List.rev acc, FDied)
        | t -> raise (Bad ("call " ^ t)) in
      let (cs, fin) = calls [] in
      if not (at_end c) then raise (Bad "trailing tokens") else YSequence (cs, fin)
  | _ -> YVector (xobs_of os)
let spec_line ts os =
  let s = scenario_of ts in
  if not (yvalid s) then true else
  match (try Some (yobs_of os) with _ -> None) with
  | Some y -> yspec s y
  | None -> false
