(* C12 driver: scenario = <time> <n> <arg>*n <nopts> <opt>*  ; see checks/C12.py for the annotation grammar *)
let fk = function 0 -> FContains | 1 -> FStrict | 2 -> FExclude | 3 -> FExcludeStrict | _ -> raise (Bad "filter kind")
let optdigits c = optbytes_tok (next c)
let opt c =
  match next c with
  | ":h" -> DHelp | ":v" -> DVerbose | ":vv" -> DVeryVerbose | ":c" -> DColor | ":p" -> DSepProcess | ":b" -> DReverse
  | ":lg" -> DListGroups | ":ln" -> DListNames | ":ll" -> DListLocations | ":ri" -> DRunIgnored | ":f" -> DCrashOnFail
  | ":e" -> DNoRethrow | ":ci" -> DCI
  | ":r" -> DRepeat (optdigits c)
  | ":s" -> DShuffle (optdigits c)
  | ":g" -> let k = fk (int_tok (next c)) in DGroup (k, bytes_tok (next c))
  | ":n" -> let k = fk (int_tok (next c)) in DName (k, bytes_tok (next c))
  | ":t" -> let k = fk (int_tok (next c)) in let g = bytes_tok (next c) in DGroupDotName (k, g, bytes_tok (next c))
  | ":T" -> let i = bool_tok (next c) in let g = bytes_tok (next c) in DTest (i, g, bytes_tok (next c))
  | ":o" -> DOutput (match int_tok (next c) with 0 -> NNormal | 1 -> NEclipse | 2 -> NJUnit | 3 -> NTeamCity | _ -> raise (Bad "output"))
  | ":k" -> DPackage (bytes_tok (next c))
  | t -> raise (Bad ("option " ^ t))
let scenario ts =
  let c = { rest = ts } in
  let tm = n_tok (next c) in
  let argv = counted c (fun c -> bytes_tok (next c)) in
  let opts = if at_end c then [] else counted c opt in
  (tm, argv, opts)
let pfilters l = [Printf.sprintf "%x" (List.length l)] @ List.concat_map (fun f -> [pbytes f.f_pat; pbool f.f_strict; pbool f.f_invert]) l
let pobs = function
  | ORejected (h, r, p) -> String.concat " " [":rej"; pbool h; pn r; (match p with PNothing -> "0" | PUsage -> "1" | PHelp -> "2" | POther -> "3")]
  | OAccepted (c, sel) ->
      String.concat " " ([":ok"; pbool c.c_verbose; pbool c.c_veryverbose; pbool c.c_color; pbool c.c_sep; pbool c.c_listg; pbool c.c_listn;
                          pbool c.c_listl; pbool c.c_runign; pbool c.c_rev; pbool c.c_crash; pbool c.c_rethrow; pbool c.c_shuf;
                          pn c.c_seed; pn c.c_repeat; (match c.c_out with OEclipse -> "0" | OJUnit -> "1" | OTeamCity -> "2"); pbytes c.c_pkg]
                         @ pfilters c.c_gf @ pfilters c.c_nf @ List.map pbool sel)
  | OUnknown -> ":unknown-dispatch-rule"
let run_line ts =
  let (tm, argv, _) = scenario ts in
  if not (valid tm argv) then raise (Bad "scenario is not valid (NUL/non-byte in an argument, or more than 9 digits handed to AtoI)")
  else pobs (run tm argv)
let filters c = counted c (fun c -> let p = bytes_tok (next c) in let s = bool_tok (next c) in { f_pat = p; f_strict = s; f_invert = bool_tok (next c) })
let obs_of os =
  let c = { rest = os } in
  match next c with
  | ":rej" -> let h = bool_tok (next c) in let r = n_tok (next c) in
              ORejected (h, r, (match next c with "0" -> PNothing | "1" -> PUsage | "2" -> PHelp | _ -> POther))
  | ":ok" ->
      let b () = bool_tok (next c) in
      let v = b () in let vv = b () in let co = b () in let p = b () in let lg = b () in let ln = b () in let ll = b () in
      let ri = b () in let rv = b () in let f = b () in let re = b () in let sh = b () in
      let seed = n_tok (next c) in let rep = n_tok (next c) in
      let out = (match next c with "0" -> OEclipse | "1" -> OJUnit | "2" -> OTeamCity | _ -> raise (Bad "output kind")) in
      let pkg = bytes_tok (next c) in
      let gf = filters c in let nf = filters c in
      let sel = many c 14 (fun c -> bool_tok (next c)) in
      if not (at_end c) then raise (Bad "trailing tokens") else
      OAccepted ({ c_verbose = v; c_veryverbose = vv; c_color = co; c_sep = p; c_listg = lg; c_listn = ln; c_listl = ll; c_runign = ri;
                   c_rev = rv; c_crash = f; c_rethrow = re; c_shuf = sh; c_seed = seed; c_repeat = rep; c_out = out; c_pkg = pkg;
                   c_gf = gf; c_nf = nf }, sel)
  | _ -> OUnknown
let spec_line ts os =
  let (tm, argv, opts) = scenario ts in
  if not (valid tm argv) then true else
  match (try Some (obs_of os) with _ -> None) with
  | Some o -> spec tm argv opts o
  | None -> false
