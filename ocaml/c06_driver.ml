(* C06 driver.
   Scenario:  <jump 0|1> <n> desc*n op*
     desc ::= :p $name            plain TestMemoryAllocator with that name
            | :k j                AccountingTestMemoryAllocator around object j
            | :l j                MemoryLeakAllocator around object j
     op   ::= :a e al addr size | :f e al addr|~ | :r al addr|~ newaddr size | :w addr $bytes | :t 0|1
            | :e 0|1|2|3          detector disable() / enable() / startChecking() / stopChecking()
            | :s 0|1              decrease / increaseAllocationStage()
            | :m 0|1              install the default / the thread-safe new-delete-malloc overloads
     e    ::= 0 new/delete  1 new[]/delete[]  2 malloc/free  3 MemoryLeakAllocator::alloc_memory/free_memory
              4 / 5 detector allocMemory/deallocMemory called directly, allocatNodesSeperately = false / true
   Observation: one item per :f / :r :   | calls cat nfreed (addr $bytes|~)*nfreed total res *)
let entry_of = function 0 -> ENew | 1 -> ENewArr | 2 -> EMalloc | 3 -> EString | 4 -> EDirect false | 5 -> EDirect true | _ -> raise (Bad "entry")
let pop_of = function 0 -> PDisable | 1 -> PEnable | 2 -> PStart | 3 -> PStop | _ -> raise (Bad "period operation")
let optaddr s = if s = "~" then None else Some (n_tok s)
let desc c = match next c with
  | ":p" -> APlain (bytes_tok (next c))
  | ":k" -> AWrap (false, nat_tok (next c))
  | ":l" -> AWrap (true, nat_tok (next c))
  | t -> raise (Bad ("desc " ^ t))
let rec ops c =
  if at_end c then [] else
  let o = match next c with
    | ":a" -> let e = entry_of (int_tok (next c)) in let al = nat_tok (next c) in let a = n_tok (next c) in let sz = n_tok (next c) in OpAlloc (e, al, a, sz)
    | ":f" -> let e = entry_of (int_tok (next c)) in let al = nat_tok (next c) in let p = optaddr (next c) in OpFree (e, al, p)
    | ":r" -> let al = nat_tok (next c) in let p = optaddr (next c) in let na = n_tok (next c) in let sz = n_tok (next c) in OpRealloc (al, p, na, sz)
    | ":w" -> let a = n_tok (next c) in let bs = bytes_tok (next c) in OpWrite (a, bs)
    | ":t" -> OpTypeCheck (bool_tok (next c))
    | ":e" -> OpPeriod (pop_of (int_tok (next c)))
    | ":s" -> OpStage (bool_tok (next c))
    | ":m" -> OpOverloads (bool_tok (next c))
    | t -> raise (Bad ("op " ^ t)) in
  o :: ops c
let scenario ts =
  let c = { rest = ts } in
  let j = bool_tok (next c) in
  let ds = counted c desc in
  { sc_jump = j; sc_allocs = ds; sc_ops = ops c }
let pitem x =
  String.concat " " (["|"; pn x.o_calls; pn x.o_cat; Printf.sprintf "%x" (List.length x.o_freed)]
                     @ List.concat_map (fun (a, b) -> [pn a; poptbytes b]) x.o_freed
                     @ [pn x.o_total; pbool x.o_res])
let run_line ts =
  let s = scenario ts in
  if not (valid s) then raise (Bad "invalid scenario") else String.concat " " (List.map pitem (run s))
let rec items c =
  if at_end c then [] else begin
    (match next c with "|" -> () | t -> raise (Bad ("item " ^ t)));
    let calls = n_tok (next c) in
    let cat = n_tok (next c) in
    let fr = counted c (fun c -> let a = n_tok (next c) in let b = optbytes_tok (next c) in (a, b)) in
    let total = n_tok (next c) in
    let res = bool_tok (next c) in
    let i = { o_calls = calls; o_cat = cat; o_freed = fr; o_total = total; o_res = res } in
    i :: items c
  end
(* an invalid scenario (only the shrinker produces them) is outside the property's quantifier: not a failing input *)
let spec_line ts os = let s = scenario ts in if not (valid s) then true else spec s (items { rest = os })
