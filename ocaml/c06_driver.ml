(* C06 driver.
   Scenario:  <jump 0|1> <n> desc*n op*
     desc ::= :p $name            plain TestMemoryAllocator with that name
            | :k j                AccountingTestMemoryAllocator around object j
            | :l j                MemoryLeakAllocator around object j
     op   ::= :a e al addr size | :f e al addr|~ | :r al addr|~ newaddr size | :w addr $bytes | :t 0|1
            | :A form al addr size   make object al the current allocator of the form's family, allocate through that form
            | :F form al addr|~      the same on the releasing side
            | :e 0|1|2|3          detector disable() / enable() / startChecking() / stopChecking()
            | :s 0|1              decrease / increaseAllocationStage()
            | :m 0|1              turnOnDefaultNotThreadSafeNewDeleteOverloads() / turnOnThreadSafeNewDeleteOverloads()   (= :o 1 / :o 2)
            | :o 0|1|2|3|4        turnOff.. / turnOnDefaultNotThreadSafe.. / turnOnThreadSafe.. / saveAndDisable.. / restoreNewDeleteOverloads()
     e    ::= 0 new/delete  1 new[]/delete[]  2 malloc/free  (= the plain forms :A 0 / :A 4 / :A 8, :F 0 / :F 5 / :F a)
              3 MemoryLeakAllocator::alloc_memory/free_memory
              4 / 5 detector allocMemory/deallocMemory called directly, allocatNodesSeperately = false / true
     form (:A) ::= 0 new(n) 1 new(n,nothrow) 2 new(n,file,int) 3 new(n,file,size_t) 4..7 the same of new[]
                   8 cpputest_malloc 9 cpputest_malloc_location a cpputest_calloc b cpputest_strdup c cpputest_strndup
     form (:F) ::= 0 delete(p) 1 delete(p,size_t) 2 delete(p,nothrow) 3 delete(p,file,int) 4 delete(p,file,size_t) 5..9 the same of delete[]
                   a cpputest_free b cpputest_free_location
   Every scenario starts in a fresh process image: the eleven function pointers as their static initialisers leave them.
   Observation: one item per :f / :F / :r :   | calls cat nfreed (addr $bytes|~)*nfreed total res
   Second kind (sizes at the edges, coq/C06_Edge.v):  :E <jump 0|1> <n> desc*n eop*
     eop  ::= :A form al addr size | :F form al addr|~ | :r al addr|~ newaddr size | :t 0|1
              addr = 0x10000000 + k * 0x1200000 (+ offset for :F / :r), k < 4;  size = any size_t (hex)
   Observation: one item per :A / :F / :r :   | calls cat nfreed (addr surviving first)*nfreed total res
              surviving = user bytes of the returned block that are not poison, first = offset of the first of them *)
let entry_of = function 0 -> ENew | 1 -> ENewArr | 2 -> EMalloc | 3 -> EString | 4 -> EDirect false | 5 -> EDirect true | _ -> raise (Bad "entry")
let aform_of = function 0 -> ANew | 1 -> ANewNothrow | 2 -> ANewFileInt | 3 -> ANewFileSize | 4 -> AArr | 5 -> AArrNothrow | 6 -> AArrFileInt
  | 7 -> AArrFileSize | 8 -> AMalloc | 9 -> AMallocLoc | 10 -> ACalloc | 11 -> AStrdup | 12 -> AStrndup | _ -> raise (Bad "allocating form")
let rform_of = function 0 -> RDel | 1 -> RDelSized | 2 -> RDelNothrow | 3 -> RDelFileInt | 4 -> RDelFileSize | 5 -> RArr | 6 -> RArrSized
  | 7 -> RArrNothrow | 8 -> RArrFileInt | 9 -> RArrFileSize | 10 -> RFree | 11 -> RFreeLoc | _ -> raise (Bad "releasing form")
let swop_of = function 0 -> SwOff | 1 -> SwDefault | 2 -> SwSafe | 3 -> SwSave | 4 -> SwRestore | _ -> raise (Bad "overload switch")
let pop_of = function 0 -> PDisable | 1 -> PEnable | 2 -> PStart | 3 -> PStop | _ -> raise (Bad "period operation")
let optaddr s = if s = "~" then None else Some (n_tok s)
let desc c = match next c with
  | ":p" -> APlain (bytes_tok (next c))
  | ":k" -> AWrap (false, nat_tok (next c))
  | ":l" -> AWrap (true, nat_tok (next c))
  | t -> raise (Bad ("desc " ^ t))
let rec ops c =
  if at_end c then [] else
  let o = match next c with
    | ":a" -> let e = int_tok (next c) in let al = nat_tok (next c) in let a = n_tok (next c) in let sz = n_tok (next c) in
              (match e with 0 -> XAlloc (ANew, al, a, sz) | 1 -> XAlloc (AArr, al, a, sz) | 2 -> XAlloc (AMalloc, al, a, sz)
                          | _ -> XDet (OpAlloc (entry_of e, al, a, sz)))
    | ":f" -> let e = int_tok (next c) in let al = nat_tok (next c) in let p = optaddr (next c) in
              (match e with 0 -> XFree (RDel, al, p) | 1 -> XFree (RArr, al, p) | 2 -> XFree (RFree, al, p)
                          | _ -> XDet (OpFree (entry_of e, al, p)))
    | ":A" -> let f = aform_of (int_tok (next c)) in let al = nat_tok (next c) in let a = n_tok (next c) in let sz = n_tok (next c) in XAlloc (f, al, a, sz)
    | ":F" -> let f = rform_of (int_tok (next c)) in let al = nat_tok (next c) in let p = optaddr (next c) in XFree (f, al, p)
    | ":r" -> let al = nat_tok (next c) in let p = optaddr (next c) in let na = n_tok (next c) in let sz = n_tok (next c) in XRealloc (al, p, na, sz)
    | ":w" -> let a = n_tok (next c) in let bs = bytes_tok (next c) in XDet (OpWrite (a, bs))
    | ":t" -> XDet (OpTypeCheck (bool_tok (next c)))
    | ":e" -> XDet (OpPeriod (pop_of (int_tok (next c))))
    | ":s" -> XDet (OpStage (bool_tok (next c)))
    | ":m" -> XSwitch (if bool_tok (next c) then SwSafe else SwDefault)
    | ":o" -> XSwitch (swop_of (int_tok (next c)))
    | t -> raise (Bad ("op " ^ t)) in
  o :: ops c
let scenario ts =
  let c = { rest = ts } in
  let j = bool_tok (next c) in
  let ds = counted c desc in
  { ps_jump = j; ps_allocs = ds; ps_ops = ops c }
let pitem x =
  String.concat " " (["|"; pn x.o_calls; pn x.o_cat; Printf.sprintf "%x" (List.length x.o_freed)]
                     @ List.concat_map (fun (a, b) -> [pn a; poptbytes b]) x.o_freed
                     @ [pn x.o_total; pbool x.o_res])
let rec eops c =
  if at_end c then [] else
  let o = match next c with
    | ":A" -> let f = aform_of (int_tok (next c)) in let al = nat_tok (next c) in let a = n_tok (next c) in let sz = n_tok (next c) in EAlloc (f, al, a, sz)
    | ":F" -> let f = rform_of (int_tok (next c)) in let al = nat_tok (next c) in let p = optaddr (next c) in EFree (f, al, p)
    | ":r" -> let al = nat_tok (next c) in let p = optaddr (next c) in let na = n_tok (next c) in let sz = n_tok (next c) in ERealloc (al, p, na, sz)
    | ":t" -> ETypeCheck (bool_tok (next c))
    | t -> raise (Bad ("edge op " ^ t)) in
  o :: eops c
let escenario ts =
  let c = { rest = ts } in
  let j = bool_tok (next c) in
  let ds = counted c desc in
  { es_jump = j; es_allocs = ds; es_ops = eops c }
let yscenario ts = match ts with ":E" :: r -> YEdge (escenario r) | _ -> YPlug (scenario ts)
let peitem x =
  String.concat " " (["|"; pn x.x_calls; pn x.x_cat; Printf.sprintf "%x" (List.length x.x_freed)]
                     @ List.concat_map (fun (a, (k, f)) -> [pn a; pn k; pn f]) x.x_freed
                     @ [pn x.x_total; pbool x.x_res])
let run_line ts =
  let s = yscenario ts in
  if not (yvalid s) then raise (Bad "invalid scenario") else
  match yrun s with
  | YOPlug l -> String.concat " " (List.map pitem l)
  | YOEdge l -> String.concat " " (List.map peitem l)
let rec items c =
  if at_end c then [] else begin
    (match next c with "|" -> () | t -> raise (Bad ("item " ^ t)));
    let calls = n_tok (next c) in
    let cat = n_tok (next c) in
    let fr = counted c (fun c -> let a = n_tok (next c) in let b = optbytes_tok (next c) in (a, b)) in
    let total = n_tok (next c) in
    let res = bool_tok (next c) in
    let i = { o_calls = calls; o_cat = cat; o_freed = fr; o_total = total; o_res = res } in
    i :: items c
  end
(* an invalid scenario (only the shrinker produces them) is outside the property's quantifier: not a failing input *)
let rec eitems c =
  if at_end c then [] else begin
    (match next c with "|" -> () | t -> raise (Bad ("item " ^ t)));
    let calls = n_tok (next c) in
    let cat = n_tok (next c) in
    let fr = counted c (fun c -> let a = n_tok (next c) in let k = n_tok (next c) in let f = n_tok (next c) in (a, (k, f))) in
    let total = n_tok (next c) in
    let res = bool_tok (next c) in
    let i = { x_calls = calls; x_cat = cat; x_freed = fr; x_total = total; x_res = res } in
    i :: eitems c
  end
let spec_line ts os =
  let s = yscenario ts in
  if not (yvalid s) then true else
  match s with
  | YPlug _ -> yspec s (YOPlug (items { rest = os }))
  | YEdge _ -> yspec s (YOEdge (eitems { rest = os }))
