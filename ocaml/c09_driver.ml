(* C09 driver: scenario = two values; see checks/C09.py for the token grammar *)
let ity_of = function 0 -> TInt | 1 -> TUInt | 2 -> TLong | 3 -> TULong | 4 -> TLLong | 5 -> TULLong | _ -> raise (Bad "ity")
let value c =
  match next c with
  | ":b" -> VBool (bool_tok (next c))
  | ":i" -> let t = ity_of (int_tok (next c)) in VInt (t, z_tok (next c))
  | ":d" -> let d = dbl_of_bits (z_tok (next c)) in let t = dbl_of_bits (z_tok (next c)) in VDouble (d, t)
  | ":s" -> VStr (optbytes_tok (next c))
  | ":p" -> VPtr (z_tok (next c))
  | ":cp" -> VConstPtr (z_tok (next c))
  | ":f" -> VFun (z_tok (next c))
  | ":m" -> VMem (bytes_tok (next c))
  | t -> raise (Bad ("value tag " ^ t))
let pobs o = String.concat " " ([pbool o.o_ab; pbool o.o_ba] @ List.map (function None -> "~" | Some z -> pz z) o.o_get)
(* scenario ::= value value | :am <arena> oa la ob lb | :as <arena> oa ob   (both payloads inside ONE allocation) *)
let scenario c =
  match peek c with
  | Some ":am" -> ignore (next c); let ar = bytes_tok (next c) in let oa = nat_tok (next c) in let la = nat_tok (next c) in
                  let ob = nat_tok (next c) in let lb = nat_tok (next c) in SAliasMem (ar, oa, la, ob, lb)
  | Some ":as" -> ignore (next c); let ar = bytes_tok (next c) in let oa = nat_tok (next c) in let ob = nat_tok (next c) in SAliasStr (ar, oa, ob)
  | _ -> let a = value c in let b = value c in SPair (a, b)
let run_line ts = let c = { rest = ts } in let s = scenario c in
  if not (sc_valid s) then raise (Bad "value out of range of its type / window outside the arena") else pobs (sc_run s)
let spec_line ts os = let c = { rest = ts } in let s = scenario c in
  match os with
  | ab :: ba :: gs -> sc_spec s { o_ab = bool_tok ab; o_ba = bool_tok ba; o_get = List.map (fun g -> if g = "~" then None else Some (z_tok g)) gs }
  | _ -> false
