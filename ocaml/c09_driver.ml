(* C09 driver: scenario = two values; see checks/C09.py for the token grammar *)
let ity_of = function 0 -> TInt | 1 -> TUInt | 2 -> TLong | 3 -> TULong | 4 -> TLLong | 5 -> TULLong | _ -> raise (Bad "ity")
let value c =
  match next c with
  | ":b" -> VBool (bool_tok (next c))
  | ":i" -> let t = ity_of (int_tok (next c)) in VInt (t, z_tok (next c))
  | ":d" -> let d = dbl_of_bits (z_tok (next c)) in let t = dbl_of_bits (z_tok (next c)) in VDouble (d, t)
  | ":s" -> VStr (optbytes_tok (next c))
  | ":p" -> VPtr (z_tok (next c))
  | ":cp" -> VConstPtr (z_tok (next c))
  | ":f" -> VFun (z_tok (next c))
  | ":m" -> VMem (bytes_tok (next c))
  | t -> raise (Bad ("value tag " ^ t))
let pobs o = String.concat " " ([pbool o.o_ab; pbool o.o_ba] @ List.map (function None -> "~" | Some z -> pz z) o.o_get)
(* scenario ::= value value | :am <arena> oa la ob lb | :as <arena> oa ob   (both payloads inside ONE allocation) *)
let scenario c =
  match peek c with
  | Some ":am" -> ignore (next c); let ar = bytes_tok (next c) in let oa = nat_tok (next c) in let la = nat_tok (next c) in
                  let ob = nat_tok (next c) in let lb = nat_tok (next c) in SAliasMem (ar, oa, la, ob, lb)
  | Some ":as" -> ignore (next c); let ar = bytes_tok (next c) in let oa = nat_tok (next c) in let ob = nat_tok (next c) in SAliasStr (ar, oa, ob)
  | _ -> let a = value c in let b = value c in SPair (a, b)
(* ---- reads through the accessor families:  :rd <family> <store path> <accessor> <stored value | :none> <default> ---- *)
let fam_of = function
  | ":nv" -> FNamed | ":ac" -> FActual | ":acd" -> FActualDef | ":ms" -> FSupport | ":msd" -> FSupportDef
  | ":cac" -> FCActual | ":cacd" -> FCActualDef | ":cms" -> FCSupport | ":cmsd" -> FCSupportDef
  | ":cact" -> FCActualTagged | ":cmst" -> FCSupportTagged | t -> raise (Bad ("family " ^ t))
let acc_of = function
  | ":bool" -> ABool | ":int" -> AInt GInt | ":uint" -> AInt GUInt | ":long" -> AInt GLong | ":ulong" -> AInt GULong
  | ":llong" -> AInt GLLong | ":ullong" -> AInt GULLong | ":double" -> ADouble | ":string" -> AStr | ":ptr" -> APtr
  | ":cptr" -> AConstPtr | ":fptr" -> AFun | ":mem" -> AMem | t -> raise (Bad ("accessor " ^ t))
let rval c =
  match next c with
  | ":b" -> RBool (bool_tok (next c)) | ":i" -> RInt (z_tok (next c)) | ":d" -> RDbl (z_tok (next c))
  | ":s" -> RStr (optbytes_tok (next c)) | ":a" -> RAddr (z_tok (next c)) | ":m" -> RMem (bytes_tok (next c))
  | t -> raise (Bad ("result tag " ^ t))
let prval = function
  | RBool b -> ":b " ^ pbool b | RInt z -> ":i " ^ pz z | RDbl b -> ":d " ^ pz b | RStr s -> ":s " ^ poptbytes s
  | RAddr a -> ":a " ^ pz a | RMem m -> ":m " ^ pbytes m
let xscenario c =
  match peek c with
  | Some ":rd" -> ignore (next c);
      let f = fam_of (next c) in
      let via = (match next c with ":cpp" -> ViaCpp | ":c" -> ViaC | t -> raise (Bad ("store path " ^ t))) in
      let a = acc_of (next c) in
      let st = (if peek c = Some ":none" then (ignore (next c); None) else Some (value c)) in
      let d = rval c in
      XRead { rd_fam = f; rd_via = via; rd_acc = a; rd_stored = st; rd_default = d }
  | _ -> XOld (scenario c)
let pxobs = function OOld o -> pobs o | ORead None -> ":fail" | ORead (Some r) -> prval r
let run_line ts = let c = { rest = ts } in let s = xscenario c in
  if not (at_end c) then raise (Bad "trailing tokens") else
  if not (x_valid s) then raise (Bad "invalid scenario: value out of range of its type / window outside the arena / accessor not offered / default not of the accessor's type")
  else pxobs (x_run s)
let spec_line ts os = let c = { rest = ts } in let s = xscenario c in
  match s with
  | XRead _ -> (match os with
      | [":fail"] -> x_spec s (ORead None)
      | _ -> let oc = { rest = os } in let r = rval oc in at_end oc && x_spec s (ORead (Some r)))
  | XOld _ -> (match os with
      | ab :: ba :: gs -> x_spec s (OOld { o_ab = bool_tok ab; o_ba = bool_tok ba; o_get = List.map (fun g -> if g = "~" then None else Some (z_tok g)) gs })
      | _ -> false)
