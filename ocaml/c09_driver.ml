(* C09 driver: scenario = two values; see checks/C09.py for the token grammar *)
let ity_of = function 0 -> TInt | 1 -> TUInt | 2 -> TLong | 3 -> TULong | 4 -> TLLong | 5 -> TULLong | _ -> raise (Bad "ity")
let value c =
  match next c with
  | ":b" -> VBool (bool_tok (next c))
  | ":i" -> let t = ity_of (int_tok (next c)) in VInt (t, z_tok (next c))
  | ":d" -> let d = dbl_of_bits (z_tok (next c)) in let t = dbl_of_bits (z_tok (next c)) in VDouble (d, t)
  | ":s" -> VStr (optbytes_tok (next c))
  | ":p" -> VPtr (z_tok (next c))
  | ":cp" -> VConstPtr (z_tok (next c))
  | ":f" -> VFun (z_tok (next c))
  | ":m" -> VMem (bytes_tok (next c))
  | t -> raise (Bad ("value tag " ^ t))
let pobs o = String.concat " " ([pbool o.o_ab; pbool o.o_ba] @ List.map (function None -> "~" | Some z -> pz z) o.o_get)
(* scenario ::= value value | :am <arena> oa la ob lb | :as <arena> oa ob   (both payloads inside ONE allocation) *)
let scenario c =
  match peek c with
  | Some ":am" -> ignore (next c); let ar = bytes_tok (next c) in let oa = nat_tok (next c) in let la = nat_tok (next c) in
                  let ob = nat_tok (next c) in let lb = nat_tok (next c) in SAliasMem (ar, oa, la, ob, lb)
  | Some ":as" -> ignore (next c); let ar = bytes_tok (next c) in let oa = nat_tok (next c) in let ob = nat_tok (next c) in SAliasStr (ar, oa, ob)
  | _ -> let a = value c in let b = value c in SPair (a, b)
(* ---- reads through the accessor families:  :rd <family> <store path> <accessor> <stored value | :none> <default> ---- *)
let fam_of = function
  | ":nv" -> FNamed | ":ac" -> FActual | ":acd" -> FActualDef | ":ms" -> FSupport | ":msd" -> FSupportDef
  | ":cac" -> FCActual | ":cacd" -> FCActualDef | ":cms" -> FCSupport | ":cmsd" -> FCSupportDef
  | ":cact" -> FCActualTagged | ":cmst" -> FCSupportTagged | t -> raise (Bad ("family " ^ t))
let acc_of = function
  | ":bool" -> ABool | ":int" -> AInt GInt | ":uint" -> AInt GUInt | ":long" -> AInt GLong | ":ulong" -> AInt GULong
  | ":llong" -> AInt GLLong | ":ullong" -> AInt GULLong | ":double" -> ADouble | ":string" -> AStr | ":ptr" -> APtr
  | ":cptr" -> AConstPtr | ":fptr" -> AFun | ":mem" -> AMem | t -> raise (Bad ("accessor " ^ t))
let rval c =
  match next c with
  | ":b" -> RBool (bool_tok (next c)) | ":i" -> RInt (z_tok (next c)) | ":d" -> RDbl (z_tok (next c))
  | ":s" -> RStr (optbytes_tok (next c)) | ":a" -> RAddr (z_tok (next c)) | ":m" -> RMem (bytes_tok (next c))
  | t -> raise (Bad ("result tag " ^ t))
let prval = function
  | RBool b -> ":b " ^ pbool b | RInt z -> ":i " ^ pz z | RDbl b -> ":d " ^ pz b | RStr s -> ":s " ^ poptbytes s
  | RAddr a -> ":a " ^ pz a | RMem m -> ":m " ^ pbytes m
let xscenario c =
  match peek c with
  | Some ":rd" -> ignore (next c);
      let f = fam_of (next c) in
      let via = (match next c with ":cpp" -> ViaCpp | ":c" -> ViaC | t -> raise (Bad ("store path " ^ t))) in
      let a = acc_of (next c) in
      let st = (if peek c = Some ":none" then (ignore (next c); None) else Some (value c)) in
      let d = rval c in
      XRead { rd_fam = f; rd_via = via; rd_acc = a; rd_stored = st; rd_default = d }
  | _ -> XOld (scenario c)
let pxobs = function OOld o -> pobs o | ORead None -> ":fail" | ORead (Some r) -> prval r
(* ---- re-used value objects:  :ru <box> <family> <nA> <stored value>*nA <nB> <stored value>*nB
   object A (in the box) receives the nA stores in order, object B (a MockNamedValue) the nB stores; doubles by bit pattern ---- *)
let sval c =
  match next c with
  | ":b" -> SBool (bool_tok (next c))
  | ":i" -> let t = ity_of (int_tok (next c)) in SInt (t, z_tok (next c))
  | ":d" -> let d = z_tok (next c) in let t = z_tok (next c) in SDbl (d, t)
  | ":s" -> SStr (optbytes_tok (next c))
  | ":p" -> SPtr (z_tok (next c))
  | ":cp" -> SCPtr (z_tok (next c))
  | ":f" -> SFun (z_tok (next c))
  | ":m" -> SMem (bytes_tok (next c))
  | t -> raise (Bad ("stored value tag " ^ t))
let box_of = function ":named" -> BNamed | ":ret" -> BReturn | ":retc" -> BReturnC | ":data" -> BData | ":datac" -> BDataC | t -> raise (Bad ("box " ^ t))
let rec split_last = function [] -> raise (Bad "no store") | [x] -> ([], x) | x :: r -> let (b, l) = split_last r in (x :: b, l)
let zscenario c =
  match peek c with
  | Some ":ru" -> ignore (next c);
      let b = box_of (next c) in
      let f = fam_of (next c) in
      let (ba, la) = split_last (counted c sval) in
      let (bb, lb) = split_last (counted c sval) in
      ZReuse { ru_box = b; ru_fam = f; ru_before = ba; ru_last = la; ru_obefore = bb; ru_other = lb }
  | _ -> ZOld (xscenario c)
let probs o = String.concat " " ([pbool o.q_ab; pbool o.q_ba] @ List.map (function None -> ":fail" | Some r -> prval r) o.q_get)
(* ---- by-content values at the edges of their representation:
   :em <iface> <arena> <ref> <len> <ref> <len> | :es <iface> <arena> <ref> <ref> | :ev <iface> <value> <value>
   iface ::= :eq | :cpp | :c     ref ::= ~ (NULL) | <offset into the arena> ---- *)
let iface_of = function ":eq" -> IEquals | ":cpp" -> IMockCpp | ":c" -> IMockC | t -> raise (Bad ("interface " ^ t))
let eref c = match next c with "~" -> RNull | t -> ROff (nat_tok t)
let wscenario c =
  match peek c with
  | Some ":em" -> ignore (next c);
      let i = iface_of (next c) in let ar = bytes_tok (next c) in
      let ra = eref c in let la = nat_tok (next c) in let rb = eref c in let lb = nat_tok (next c) in
      WEdge (EMem (i, ar, ra, la, rb, lb))
  | Some ":es" -> ignore (next c);
      let i = iface_of (next c) in let ar = bytes_tok (next c) in
      let ra = eref c in let rb = eref c in WEdge (EStr (i, ar, ra, rb))
  | Some ":ev" -> ignore (next c);
      let i = iface_of (next c) in let a = value c in let b = value c in WEdge (EVal (i, a, b))
  | _ -> WOld (zscenario c)
let peobs = function None -> ":fault" | Some (ab, ba) -> pbool ab ^ " " ^ pbool ba
(* ---- value objects whose earlier life was a custom-type object:
   :st <box> <cmpmask> <copmask> <nA> <store>*nA <nB> <store>*nB      store ::= <stored value> | :o <type 0..2> <const 0|1> <object 0..3>
   bit i of cmpmask / copmask: a comparator / a copier is installed for custom type i; the last store of each object is a built-in value ---- *)
let ostore c =
  match peek c with
  | Some ":o" -> ignore (next c); let ty = nat_tok (next c) in let cst = bool_tok (next c) in let ob = nat_tok (next c) in OObj (ty, cst, ob)
  | _ -> OVal (sval c)
let oval = function OVal s -> s | OObj _ -> raise (Bad "the last store of an object must be a built-in value")
let vscenario c =
  match peek c with
  | Some ":st" -> ignore (next c);
      let b = box_of (next c) in
      let cm = int_tok (next c) in let pm = int_tok (next c) in
      let rp = List.map (fun i -> ((cm lsr i) land 1 = 1, (pm lsr i) land 1 = 1)) [0; 1; 2] in
      let (ba, la) = split_last (counted c ostore) in
      let (bb, lb) = split_last (counted c ostore) in
      VStale { st_box = b; st_repo = rp; st_before = ba; st_last = oval la; st_obefore = bb; st_other = oval lb }
  | _ -> VOld (wscenario c)
let reads_of gs =
  let oc = { rest = gs } in
  let rec reads () = if at_end oc then [] else
    (if peek oc = Some ":fail" then (ignore (next oc); None :: reads ()) else (let r = rval oc in Some r :: reads ())) in
  reads ()
let run_line ts = let c = { rest = ts } in let s = vscenario c in
  if not (at_end c) then raise (Bad "trailing tokens") else
  if not (v_valid s) then raise (Bad "invalid scenario: value out of range of its type / window outside the arena / a NULL buffer with a size / accessor not offered / default not of the accessor's type / the box has no setter for a stored value / no such custom type or object")
  else (match v_run s with UOld (QOld (PObs o)) -> pxobs o | UOld (QOld (PReuse o)) -> probs o | UOld (QEdge o) -> peobs o | UStale o -> probs o)
let spec_line ts os = let c = { rest = ts } in let v = vscenario c in
  match v with
  | VStale _ -> (match os with
      | ab :: ba :: gs -> v_spec v (UStale { q_ab = bool_tok ab; q_ba = bool_tok ba; q_get = reads_of gs })
      | _ -> false)
  | VOld s ->
  let w_spec s o = v_spec (VOld s) (UOld o) in
  match s with
  | WEdge _ -> (match os with
      | [ab; ba] -> w_spec s (QEdge (Some (bool_tok ab, bool_tok ba)))
      | _ -> false)
  | WOld z -> (match z with
  | ZReuse _ -> (match os with
      | ab :: ba :: gs ->
          let oc = { rest = gs } in
          let rec reads () = if at_end oc then [] else
            (if peek oc = Some ":fail" then (ignore (next oc); None :: reads ()) else (let r = rval oc in Some r :: reads ())) in
          w_spec s (QOld (PReuse { q_ab = bool_tok ab; q_ba = bool_tok ba; q_get = reads () }))
      | _ -> false)
  | ZOld (XRead _) -> (match os with
      | [":fail"] -> w_spec s (QOld (PObs (ORead None)))
      | _ -> let oc = { rest = os } in let r = rval oc in at_end oc && w_spec s (QOld (PObs (ORead (Some r)))))
  | ZOld (XOld _) -> (match os with
      | ab :: ba :: gs -> w_spec s (QOld (PObs (OOld { o_ab = bool_tok ab; o_ba = bool_tok ba; o_get = List.map (fun g -> if g = "~" then None else Some (z_tok g)) gs })))
      | _ -> false))
