(* C18 driver: scenario = <via> op*  with op ::= :a n | :d k n | :f k n | :cc | :ca   (checks/C18.py, harness/C18.cpp)
   observation = item*  with item ::= :i <nev> (:A id sz | :F id sz)* (~ | :r id off) <warn> *)
let op c =
  match next c with
  | ":a" -> OAlloc (n_tok (next c))
  | ":d" -> let k = nat_tok (next c) in ODealloc (k, n_tok (next c))
  | ":f" -> let k = n_tok (next c) in OForeign (k, n_tok (next c))
  | ":cc" -> OClearCache
  | ":ca" -> OClearAll
  | t -> raise (Bad ("op " ^ t))
let scenario ts =
  let c = { rest = ts } in
  let via = n_tok (next c) in
  let rec go acc = if at_end c then List.rev acc else go (op c :: acc) in
  (via, go [])
let pev = function
  | EA (id, sz) -> ":A " ^ pn id ^ " " ^ pn sz
  | EF (id, sz) -> ":F " ^ pn id ^ " " ^ pn sz
let pitem it =
  String.concat " " ([":i"; Printf.sprintf "%x" (List.length it.i_evs)] @ List.map pev it.i_evs
                     @ [(match it.i_ret with None -> "~" | Some (id, off) -> ":r " ^ pn id ^ " " ^ pn off); pbool it.i_warn])
(* installed scenarios: 2 gop*  with gop ::= :a n | :s n | :d k n | :f k n | :cc | :ca | :gi | :go
   (:s n = a SimpleString whose buffer has n bytes: the same request as :a n for the allocator)
   observation = gitem*  with gitem ::= :j <nev> (:A id sz | :F id sz)* (~ | :r id off) <warn> <out> <dbl> *)
let gop c =
  match next c with
  | ":a" | ":s" -> GAlloc (n_tok (next c))
  | ":d" -> let k = nat_tok (next c) in GRel (k, n_tok (next c))
  | ":f" -> let k = n_tok (next c) in GFor (k, n_tok (next c))
  | ":cc" -> GClearCache
  | ":ca" -> GClearAll
  | ":gi" -> GPush
  | ":go" -> GPop
  | t -> raise (Bad ("gop " ^ t))
let is_global ts = match ts with "2" :: _ -> true | _ -> false
let gscenario ts =
  let c = { rest = List.tl ts } in
  let rec go acc = if at_end c then List.rev acc else go (gop c :: acc) in
  go []
let pgitem g =
  let it = g.gi_it in
  String.concat " " ([":j"; Printf.sprintf "%x" (List.length it.i_evs)] @ List.map pev it.i_evs
                     @ [(match it.i_ret with None -> "~" | Some (id, off) -> ":r " ^ pn id ^ " " ^ pn off); pbool it.i_warn;
                        pn g.gi_out; pn g.gi_dbl])
(* environment scenarios: 3 <rf|~> <ra|~> eop*  with eop ::= :mi k | :gi | :ci | :go | :ti | :tr | :a n | :s n | :d k   (coq/C18_ModelE.v)
   observation = eitem*  with eitem ::= :k <nev> (:A who id sz | :F who id sz | :R id off n)* (~ | :r id off) <warn> *)
let eop c =
  match next c with
  | ":mi" -> EMal (n_tok (next c))
  | ":gi" -> EPush (n_tok "0")
  | ":ci" -> EPush (n_tok "1")
  | ":go" -> EPop
  | ":ti" -> ETop
  | ":tr" -> EUntop
  | ":a" | ":s" -> EAlloc (n_tok (next c))
  | ":d" -> ERel (nat_tok (next c))
  | t -> raise (Bad ("eop " ^ t))
let is_env ts = match ts with "3" :: _ -> true | _ -> false
let optn c = match next c with "~" -> None | t -> Some (n_tok t)
let escenario ts =
  let c = { rest = List.tl ts } in
  let rf = optn c in
  let ra = optn c in
  let rec go acc = if at_end c then List.rev acc else go (eop c :: acc) in
  { e_rf = rf; e_ra = ra; e_ops = go [] }
let pxev = function
  | XA (w, id, sz) -> ":A " ^ pn w ^ " " ^ pn id ^ " " ^ pn sz
  | XF (w, id, sz) -> ":F " ^ pn w ^ " " ^ pn id ^ " " ^ pn sz
  | XR (id, off, n) -> ":R " ^ pn id ^ " " ^ pn off ^ " " ^ pn n
let peitem it =
  String.concat " " ([":k"; Printf.sprintf "%x" (List.length it.ei_evs)] @ List.map pxev it.ei_evs
                     @ [(match it.ei_ret with None -> "~" | Some (id, off) -> ":r " ^ pn id ^ " " ^ pn off); pbool it.ei_warn])
let xev c =
  match next c with
  | ":A" -> let w = n_tok (next c) in let id = n_tok (next c) in XA (w, id, n_tok (next c))
  | ":F" -> let w = n_tok (next c) in let id = n_tok (next c) in XF (w, id, n_tok (next c))
  | ":R" -> let id = n_tok (next c) in let off = n_tok (next c) in XR (id, off, n_tok (next c))
  | t -> raise (Bad ("event " ^ t))
let eitem c =
  match next c with
  | ":k" -> let evs = counted c xev in
            let ret = (match next c with
                       | "~" -> None
                       | ":r" -> let id = n_tok (next c) in Some (id, n_tok (next c))
                       | t -> raise (Bad ("ret " ^ t))) in
            let w = bool_tok (next c) in
            { ei_evs = evs; ei_ret = ret; ei_warn = w }
  | t -> raise (Bad ("eitem " ^ t))
(* warning-printed-through-the-cache scenarios: 4 <pre> <c0> <g> wop*  with wop ::= :a n | :d k | :f j n | :p   (coq/C18_ModelW.v)
   observation = item* :x <depth> <prints>   (one :i item per call made on the cache, the output's calls included) *)
let wop c =
  match next c with
  | ":a" -> WAlloc (n_tok (next c))
  | ":d" -> WRel (nat_tok (next c))
  | ":f" -> let j = n_tok (next c) in WFor (j, n_tok (next c))
  | ":p" -> WPrint
  | t -> raise (Bad ("wop " ^ t))
let is_warn ts = match ts with "4" :: _ -> true | _ -> false
let wscenario ts =
  let c = { rest = List.tl ts } in
  let pre = bool_tok (next c) in
  let c0 = n_tok (next c) in
  let g = n_tok (next c) in
  let rec go acc = if at_end c then List.rev acc else go (wop c :: acc) in
  { w_pre = pre; w_c0 = c0; w_g = g; w_ops = go [] }
let run_line ts =
  if is_warn ts then begin
    let s = wscenario ts in
    if not (wvalid s) then raise (Bad "warning scenario is not valid (see wvalid in coq/C18_ModelW.v)")
    else let o = wrun s in
      String.concat " " (List.map pitem o.wo_items @ [":x"; pn o.wo_depth; pn o.wo_prints])
  end else
  if is_env ts then begin
    let s = escenario ts in
    if not (evalid s) then raise (Bad "environment scenario is not valid (see evalid in coq/C18_ModelE.v)")
    else String.concat " " (List.map peitem (erun s))
  end else
  if is_global ts then begin
    let s = gscenario ts in
    if not (gvalid s) then raise (Bad "installed scenario is not valid (see gvalid in coq/C18_ModelG.v)")
    else String.concat " " (List.map pgitem (grun s))
  end else
  let s = scenario ts in
  if not (valid s) then raise (Bad "scenario is not valid (a release names an alloc that has not happened yet)")
  else String.concat " " (List.map pitem (run s))
let ev c =
  match next c with
  | ":A" -> let id = n_tok (next c) in EA (id, n_tok (next c))
  | ":F" -> let id = n_tok (next c) in EF (id, n_tok (next c))
  | t -> raise (Bad ("event " ^ t))
let item c =
  match next c with
  | ":i" -> let evs = counted c ev in
            let ret = (match next c with
                       | "~" -> None
                       | ":r" -> let id = n_tok (next c) in Some (id, n_tok (next c))
                       | t -> raise (Bad ("ret " ^ t))) in
            let w = bool_tok (next c) in
            { i_evs = evs; i_ret = ret; i_warn = w }
  | t -> raise (Bad ("item " ^ t))
let gitem c =
  match next c with
  | ":j" -> let evs = counted c ev in
            let ret = (match next c with
                       | "~" -> None
                       | ":r" -> let id = n_tok (next c) in Some (id, n_tok (next c))
                       | t -> raise (Bad ("ret " ^ t))) in
            let w = bool_tok (next c) in
            let o = n_tok (next c) in
            let d = n_tok (next c) in
            { gi_it = { i_evs = evs; i_ret = ret; i_warn = w }; gi_out = o; gi_dbl = d }
  | t -> raise (Bad ("gitem " ^ t))
let spec_line ts os =
  if is_warn ts then begin
    let s = wscenario ts in
    if not (wvalid s) then true else
    let c = { rest = os } in
    let rec go acc = if at_end c || peek c = Some ":x" then List.rev acc else go (item c :: acc) in
    let its = go [] in
    if at_end c then false else begin
      ignore (next c);
      let d = n_tok (next c) in
      let p = n_tok (next c) in
      wspec s { wo_items = its; wo_depth = d; wo_prints = p }
    end
  end else
  if is_env ts then begin
    let s = escenario ts in
    if not (evalid s) then true else
    let c = { rest = os } in
    let rec go acc = if at_end c then List.rev acc else go (eitem c :: acc) in
    espec s (go [])
  end else
  if is_global ts then begin
    let s = gscenario ts in
    if not (gvalid s) then true else
    let c = { rest = os } in
    let rec go acc = if at_end c then List.rev acc else go (gitem c :: acc) in
    gspec s (go [])
  end else
  let s = scenario ts in
  if not (valid s) then true (* not a scenario the property speaks about: not judged *) else
  let c = { rest = os } in
  let rec go acc = if at_end c then List.rev acc else go (item c :: acc) in
  spec s (go [])
