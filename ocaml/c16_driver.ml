(* C16 driver: scenario = <ntests> { <nops> { op } <group> <name> <file> <line> <ignored> <nstmts> { :p <text> | :f <file> <line> <msg> | :x <file> <line> <msg> } } <npost> { op }
   op = :k <package> (setPackageName) | :n <group> (createFileName, the answer is observed); the ops in front of a test are made just before its
   printCurrentTestStarted callback (never, when the test is filtered out), the trailing ones after runAllTests returned.
   Optional tail: :F <run-ignored> <ngroupfilters> { <pattern> <strict> <invert> } <nnamefilters> { <pattern> <strict> <invert> }
   (TestRegistry::setRunIgnored / setGroupFilters / setNameFilters; absent = no filters, -ri off).
   observation = the files that exist at the end (a second open of a name replaces the content), in the order of the first opens:
   observation = <nfiles> { <filename> <content> } <nnames> { <answer of a createFileName call> }.
   Extra form (parser differential, no implementation involved): :xml <bytes> -> 1/0 *)
let stmt c =
  match next c with
  | ":p" -> SPrint (bytes_tok (next c))
  | ":f" -> let f = bytes_tok (next c) in let l = n_tok (next c) in let m = bytes_tok (next c) in SFail (f, l, m)
  | ":x" -> let f = bytes_tok (next c) in let l = n_tok (next c) in let m = bytes_tok (next c) in SFailStop (f, l, m)
  | t -> raise (Bad ("stmt tag " ^ t))
let op c =
  match next c with
  | ":k" -> OSetPkg (bytes_tok (next c))
  | ":n" -> OFileName (bytes_tok (next c))
  | t -> raise (Bad ("op tag " ^ t))
let test c =
  let ops = counted c op in
  let g = bytes_tok (next c) in let n = bytes_tok (next c) in let f = bytes_tok (next c) in let l = n_tok (next c) in
  let ign = bool_tok (next c) in let body = counted c stmt in
  (ops, { t_group = g; t_name = n; t_file = f; t_line = l; t_ignored = ign; t_body = body })
let tfilter c = let p = bytes_tok (next c) in let st = bool_tok (next c) in let inv = bool_tok (next c) in
  { f_pat = p; f_strict = st; f_invert = inv }
let scenario c = let ts = counted c test in let post = counted c op in
  let (ri, gf, nf) =
    if at_end c then (false, [], [])
    else (match next c with
          | ":F" -> let ri = bool_tok (next c) in let gf = counted c tfilter in let nf = counted c tfilter in (ri, gf, nf)
          | t -> raise (Bad ("tail tag " ^ t))) in
  if not (at_end c) then raise (Bad "trailing tokens") else { s_tests = ts; s_post = post; s_ri = ri; s_gf = gf; s_nf = nf }
let pobs ((o, names) : (n list * n list) list * n list list) =
  String.concat " " ((Printf.sprintf "%x" (List.length o) :: List.concat_map (fun (f, x) -> [pbytes f; pbytes x]) o)
                     @ (Printf.sprintf "%x" (List.length names) :: List.map pbytes names))
let run_line ts =
  match ts with
  | ":xml" :: b :: _ -> pbool (xml_accepts (bytes_tok b))
  | _ -> let c = { rest = ts } in let s = scenario c in
         if not (valid s) then raise (Bad "scenario outside the property's character set / line range") else pobs (run s)
let spec_line ts os =
  let c = { rest = ts } in let s = scenario c in
  let oc = { rest = os } in
  let files = counted oc (fun oc -> let f = bytes_tok (next oc) in let x = bytes_tok (next oc) in (f, x)) in
  let names = counted oc (fun oc -> bytes_tok (next oc)) in
  at_end oc && spec s (files, names)
