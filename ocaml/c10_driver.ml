(* C10 driver.  Scenario:  <seed> <outalloc 0|1> <nthreads> { <nops> op*nops }*nthreads
     op ::= :a <slot> <size> <entry 0..6> | :f <slot> <entry 0 delete|1 delete[]|2 free> | :r <slot> <size> | :o <slot>
          | :w <entry 0 delete|1 delete[]|2 free|3 realloc> | :t
          | :x <slot> <how>   realloc(slot, n) for an n that is turned down: how 0 = SIZE_MAX-16 and 4 = the smallest size the
                              overflow guard refuses (RGuard); 1 = SIZE_MAX/2, 2 = an ordinary size with the underlying realloc
                              made to fail at the PlatformSpecificRealloc seam, 3 = the largest size the guard admits (RUnderlying)
          | :s <ms>           directive, not an operation: the thread's next operation rests <ms> milliseconds inside the locked
                              region.  The model has no clock: here the directive becomes a stretch of the schedule in which that
                              thread is taken into the locked region and then every other thread is given turns.
          | :e <n> sw*n       epoch boundary (an item of every thread's script, the same number in each): all threads finish
                              what comes before, the test thread flips the switches sw (0 turnOff, 1 turnOnDefaultNotThreadSafe,
                              2 turnOnThreadSafe, 3 saveAndDisable, 4 restore; only thread 0 may name any) and probes every entry
                              point, then all threads go on.  On thread 0 a new epoch is a new test.
   The schedules the model runs are derived from <seed> (and the :s directives) here; any schedules give the same observation
   (C10_schedule_independent).
   Observation:  :ok <ntests> verdict* <wfail> <adv> <distinct> <foreign> <rest> <overlap> <n> (<thread> <slot> <size>)*n
                     <nepochs> (<calls> <locked>)*nepochs   |   :hang *)
let alloc_entry = function
  | 0 -> ENew | 1 -> ENewNothrow | 2 -> ENewDebug | 3 -> ENewArr | 4 -> ENewArrNothrow | 5 -> ENewArrDebug | 6 -> EMalloc
  | i -> raise (Bad (Printf.sprintf "allocating entry %d" i))
let release_entry = function
  | 0 -> EDelete | 1 -> EDeleteArr | 2 -> EFree | 3 -> ERealloc | i -> raise (Bad (Printf.sprintf "releasing entry %d" i))
let op c =
  match next c with
  | ":a" -> let k = nat_tok (next c) in let sz = n_tok (next c) in OAlloc (k, sz, alloc_entry (int_tok (next c)))
  | ":f" -> let k = nat_tok (next c) in let e = int_tok (next c) in if e > 2 then raise (Bad "free entry") else OFree (k, release_entry e)
  | ":r" -> let k = nat_tok (next c) in ORealloc (k, n_tok (next c))
  | ":o" -> OOverrun (nat_tok (next c))
  | ":w" -> OWild (release_entry (int_tok (next c)))
  | ":t" -> OBoundary
  | ":x" -> let k = nat_tok (next c) in
            (match int_tok (next c) with
             | 0 | 4 -> ORefused (k, RGuard)
             | 1 | 2 | 3 -> ORefused (k, RUnderlying)
             | i -> raise (Bad (Printf.sprintf "refused realloc kind %d" i)))
  | t -> raise (Bad ("op " ^ t))
let swop = function
  | 0 -> SwOff | 1 -> SwDefault | 2 -> SwSafe | 3 -> SwSave | 4 -> SwRestore | i -> raise (Bad (Printf.sprintf "switch %d" i))
(* an item of a script: an operation, the directive :s <ms>, or an epoch boundary with its switches *)
type item = Op of op | Rest | Epoch of swop list
let item c =
  match peek c with
  | Some ":s" -> ignore (next c); ignore (int_tok (next c)); Rest
  | Some ":e" -> ignore (next c); Epoch (counted c (fun c -> swop (int_tok (next c))))
  | _ -> Op (op c)
(* a thread's items cut at the epoch boundaries: (switches in front of the part, its items as Some op | None = :s) *)
let cut its =
  let rec go sw acc = function
    | [] -> [ (sw, List.rev acc) ]
    | Epoch l :: r -> (sw, List.rev acc) :: go l [] r
    | Op o :: r -> go sw (Some o :: acc) r
    | Rest :: r -> go sw (None :: acc) r in
  go [] [] its
(* micro-steps thread t needs on its own to stand inside the locked region of its j-th operation (exact for scripts without
   misuse; any number gives a legitimate schedule) *)
let steps_into ops j =
  let rec go i = function
    | [] -> 0
    | o :: r -> if i >= j then 2 else (match o with OOverrun _ | OBoundary -> 1 | _ -> 4) + go (i + 1) r in
  go 0 ops
let stall_schedule items =
  (* items : per thread, the list of (Some op | None = directive) *)
  let nth = List.length items in
  List.concat (List.mapi (fun t its ->
      let ops = List.filter_map (fun x -> x) its in
      let rec pos i acc = function
        | [] -> List.rev acc
        | None :: r -> pos i (i :: acc) r
        | Some _ :: r -> pos (i + 1) acc r in
      List.concat_map (fun j ->
          List.init (steps_into ops j) (fun _ -> nat_of_int t)
          @ List.concat (List.init 12 (fun _ -> List.filter_map (fun u -> if u = t then None else Some (nat_of_int u)) (List.init nth (fun u -> u)))))
        (pos 0 [] its)) items)
let schedule seed nthreads nops =
  (* xorshift; runs of one thread of random length so that both fine and coarse interleavings occur *)
  let st = ref (Int64.logor (Int64.of_int (seed * 2654435761 + 12345)) 1L) in
  let rnd () = st := Int64.logxor !st (Int64.shift_left !st 13); st := Int64.logxor !st (Int64.shift_right_logical !st 7);
               st := Int64.logxor !st (Int64.shift_left !st 17); Int64.to_int (Int64.shift_right_logical !st 3) land 0xffffff in
  let total = if seed = 0 then 0 else min 4000 (3 * nops + 8) in
  let rec go acc n = if n <= 0 then acc else
      let t = rnd () mod (max 1 nthreads) in let run = 1 + (if rnd () land 3 = 0 then rnd () mod 7 else 0) in
      go (List.init run (fun _ -> nat_of_int t) @ acc) (n - run) in
  go [] total
let scenario ts =
  let c = { rest = ts } in
  let seed = int_tok (next c) land 0xfffffff in
  let oa = bool_tok (next c) in
  let threads = List.map cut (counted c (fun c -> counted c item)) in
  if not (at_end c) then raise (Bad "trailing tokens");
  (match threads with
   | [] -> raise (Bad "no thread")
   | t0 :: ws ->
       List.iter (fun w -> if List.length w <> List.length t0 then raise (Bad "threads disagree on the number of epochs");
                           List.iter (fun (sw, _) -> if sw <> [] then raise (Bad "switches on a worker thread")) w) ws);
  let nep = List.length (List.hd threads) in
  (* epoch e: (switches, items per thread) *)
  let epoch e = (fst (List.nth (List.hd threads) e), List.map (fun t -> snd (List.nth t e)) threads) in
  let sched e items =
    let scripts = List.map (List.filter_map (fun x -> x)) items in
    let nops = List.fold_left (fun a s -> a + List.length s) 0 scripts in
    (scripts, stall_schedule items @ schedule (if seed = 0 then 0 else seed + 7919 * e) (List.length scripts) nops) in
  let (scripts0, sched0) = sched 0 (snd (epoch 0)) in
  { sc_outalloc = oa; sc_scripts = scripts0; sc_sched = sched0;
    sc_more = List.init (nep - 1) (fun i -> let (sw, items) = epoch (i + 1) in let (scr, sch) = sched (i + 1) items in
                                            { ep_sw = sw; ep_scripts = scr; ep_sched = sch }) }
let pobs o =
  if not o.o_done then ":hang" else
  let ents = List.sort compare (List.map (fun ((t, k), z) -> (int_of_nat t, int_of_nat k, pn z)) o.o_entries) in
  String.concat " " ([":ok"; Printf.sprintf "%x" (List.length o.o_verdicts)] @ List.map pbool o.o_verdicts
                     @ [pn o.o_wfail; pn o.o_adv; pbool o.o_distinct; pn o.o_foreign; pn o.o_rest; pn o.o_overlap; Printf.sprintf "%x" (List.length ents)]
                     @ List.concat_map (fun (t, k, z) -> [Printf.sprintf "%x" t; Printf.sprintf "%x" k; z]) ents
                     @ [Printf.sprintf "%x" (List.length o.o_epochs)] @ List.concat_map (fun (a, b) -> [pn a; pn b]) o.o_epochs)
let run_line ts =
  let s = scenario ts in
  if not (valid s) then raise (Bad "scenario is not valid (allocation into a held slot, overrun of an empty slot, misuse on a worker thread, ...)")
  else pobs (run s)
let hung = { o_done = false; o_verdicts = []; o_wfail = N0; o_adv = N0; o_distinct = false; o_foreign = N0; o_rest = N0; o_overlap = N0; o_entries = []; o_epochs = [] }
let spec_line ts os =
  let s = scenario ts in
  if not (valid s) then true else
  let c = { rest = os } in
  match next c with
  | ":ok" ->
      let v = counted c (fun c -> bool_tok (next c)) in
      let wf = n_tok (next c) in let adv = n_tok (next c) in let d = bool_tok (next c) in
      let fo = n_tok (next c) in let re = n_tok (next c) in let ov = n_tok (next c) in
      let ents = counted c (fun c -> let t = nat_tok (next c) in let k = nat_tok (next c) in ((t, k), n_tok (next c))) in
      let eps = counted c (fun c -> let a = n_tok (next c) in (a, n_tok (next c))) in
      if not (at_end c) then false else
      spec s { o_done = true; o_verdicts = v; o_wfail = wf; o_adv = adv; o_distinct = d; o_foreign = fo; o_rest = re; o_overlap = ov; o_entries = ents;
               o_epochs = eps }
  | _ -> spec s hung
