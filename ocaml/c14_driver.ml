(* C14 driver: see checks/C14.py for the token grammar *)
let leak_group c =
  let count = int_tok (next c) in
  let size = n_tok (next c) in let fl = n_tok (next c) in let line = n_tok (next c) in let anl = n_tok (next c) in
  let m = bool_tok (next c) in
  List.init count (fun _ -> { l_size = size; l_flen = fl; l_line = line; l_anl = anl; l_malloc = m })
let op c =
  match next c with
  | ":clr" -> Clr
  | ":mis" -> let k = n_tok (next c) in let a1 = n_tok (next c) in let a2 = n_tok (next c) in let a3 = n_tok (next c) in
              let a4 = n_tok (next c) in let a5 = n_tok (next c) in let a6 = n_tok (next c) in let a7 = n_tok (next c) in
              Mis (k, a1, a2, a3, a4, a5, a6, a7)
  | ":rep" -> Rep (List.concat (counted c leak_group))
  | t -> raise (Bad ("op " ^ t))
let fscn c =
  let ob () = optbytes_tok (next c) in
  let b () = match optbytes_tok (next c) with Some x -> x | None -> [] in
  match next c with
  | ":ce" -> let e = ob () in let a = ob () in FStr (KCheckEqual, e, a, b ())
  | ":se" -> let e = ob () in let a = ob () in FStr (KStringEqual, e, a, b ())
  | ":sn" -> let e = ob () in let a = ob () in FStr (KNoCase, e, a, b ())
  | ":eq" -> let e = ob () in let a = ob () in FStr (KEquals, e, a, b ())
  | ":co" -> let e = ob () in let a = ob () in FStr (KContains, e, a, b ())
  | ":be" -> let e = ob () in let a = ob () in let size = nat_tok (next c) in FBin (e, a, size, b ())
  | ":le" | ":ul" | ":ll" | ":ull" | ":sb" -> let e = z_tok (next c) in let a = z_tok (next c) in FNum (e, a, b ())
  | ":de" -> ignore (next c); ignore (next c); ignore (next c); FOther (b ())
  | ":bi" -> ignore (next c); ignore (next c); ignore (next c); ignore (next c); FOther (b ())
  | ":cmp" | ":chk" -> ignore (next c); ignore (next c); FOther (b ())
  | ":ff" -> FOther (b ())
  | ":fu" -> ignore (next c); FOther (b ())
  | t -> raise (Bad ("failure kind " ^ t))
let scenario ts =
  let c = { rest = ts } in
  match next c with
  | ":buf" -> let plen = n_tok (next c) in SBuf (plen, counted c op)
  | ":fail" -> SFail (fscn c)
  | t -> raise (Bad ("family " ^ t))
let poobs = function
  | OClr (len, cn, f, l) -> String.concat " " ["c"; pn len; pbool cn; pn f; pn l]
  | OMis (len, cn, f, l) -> String.concat " " ["m"; pn len; pbool cn; pn f; pn l]
  | ORep (len, cn, tot, notice, complete, f, l) ->
      String.concat " " ["r"; pn len; pbool cn; (match tot with None -> "~" | Some z -> pz z); pbool notice; pn complete; pn f; pn l]
let pobs = function
  | OBuf l -> String.concat " " (List.map poobs l)
  | OFail FBad -> "bad"
  | OFail (FMsg (pos, msg)) -> (match pos with None -> "~" | Some p -> pn p) ^ " " ^ pbytes msg
let run_line ts =
  let s = scenario ts in
  if not (valid s) then raise (Bad "scenario outside the valid domain") else pobs (run s)
let rec parse_oobs c =
  if at_end c then [] else
  let tag = next c in
  let len = n_tok (next c) in let cn = bool_tok (next c) in
  let o = (match tag with
    | "c" -> let f = n_tok (next c) in let l = n_tok (next c) in OClr (len, cn, f, l)
    | "m" -> let f = n_tok (next c) in let l = n_tok (next c) in OMis (len, cn, f, l)
    | "r" -> let t = next c in let tot = if t = "~" then None else Some (z_tok t) in
             let notice = bool_tok (next c) in let complete = n_tok (next c) in
             let f = n_tok (next c) in let l = n_tok (next c) in ORep (len, cn, tot, notice, complete, f, l)
    | t -> raise (Bad ("obs tag " ^ t))) in
  o :: parse_oobs c
let spec_line ts os =
  let s = scenario ts in
  match s with
  | SBuf _ -> spec s (OBuf (parse_oobs { rest = os }))
  | SFail _ -> (match os with
      | [p; m] -> spec s (OFail (FMsg ((if p = "~" then None else Some (n_tok p)), bytes_tok m)))
      | _ -> false)
