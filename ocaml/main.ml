(* main.ml -- appended after the property's driver, which defines
     run_line  : string list -> string            (model observation of a scenario)
     spec_line : string list -> string list -> bool   (model-free oracle: scenario, observation) *)
let split_arrow (line:string) =
  let ts = toks line in
  let rec go acc = function
    | [] -> (List.rev acc, [])
    | "=>" :: r -> (List.rev acc, r)
    | t :: r -> go (t :: acc) r in
  go [] ts
let () =
  let mode = if Array.length Sys.argv > 1 then Sys.argv.(1) else "run" in
  (try while true do
    let line = input_line stdin in
    (match mode with
     | "run" -> print_endline (try run_line (toks line) with Bad m -> "!MODEL " ^ m | Failure m -> "!MODEL " ^ m)
     | _ -> let (s, o) = split_arrow line in
            print_endline (if o = ["!"] then "0" else (try (if spec_line s o then "1" else "0") with _ -> "0")))
  done with End_of_file -> ());
  flush stdout
