(* C13 driver: scenario = one operation, or one of the life-cycle scenarios of C13_Life.v (:repeat :pad :seq :split :fromtill
   :masked :binary :col), or an aliasing history (:als, C13_Alias.v); see checks/C13.py for the token grammar *)
let b c = bytes_tok (next c)
let op_of c =
  match next c with
  | ":strlen" -> OStrLen (b c)
  | ":strcmp" -> let x = b c in OStrCmp (x, b c)
  | ":strncmp" -> let x = b c in let y = b c in OStrNCmp (x, y, nat_tok (next c))
  | ":strstr" -> let x = b c in OStrStr (x, b c)
  | ":memcmp" -> let x = b c in let y = b c in OMemCmp (x, y, nat_tok (next c))
  | ":contains" -> let x = b c in OContains (x, b c)
  | ":containsnc" -> let x = b c in OContainsNoCase (x, b c)
  | ":starts" -> let x = b c in OStartsWith (x, b c)
  | ":ends" -> let x = b c in OEndsWith (x, b c)
  | ":count" -> let x = b c in OCount (x, b c)
  | ":eq" -> let x = b c in OEqual (x, b c)
  | ":eqnc" -> let x = b c in OEqualsNoCase (x, b c)
  | ":find" -> let x = b c in OFind (x, n_tok (next c))
  | ":findfrom" -> let x = b c in let st = n_tok (next c) in OFindFrom (x, st, n_tok (next c))
  | ":substr" -> let x = b c in let p = n_tok (next c) in OSubString (x, p, n_tok (next c))
  | ":substr1" -> let x = b c in OSubString1 (x, n_tok (next c))
  | ":lower" -> OLower (b c)
  | ":replc" -> let x = b c in let c1 = n_tok (next c) in OReplaceChar (x, c1, n_tok (next c))
  | ":ordinal" -> OOrdinal (n_tok (next c))
  | ":repls" -> let x = b c in let t = b c in OReplaceStr (x, t, b c)
  | ":printable" -> OPrintable (b c)
  | ":append" -> let x = b c in OAppend (x, b c)
  | ":plus" -> let x = b c in OPlus (x, b c)
  | ":copybuf" -> let x = b c in OCopyBuf (x, nat_tok (next c))
  | ":fmt" -> let x = b c in OFormat (x, b c)
  | ":atoi" -> OAtoI (b c)
  | ":atou" -> OAtoU (b c)
  | t -> raise (Bad ("op " ^ t))
let pval = function
  | VZ z -> [pz z] | VNone -> ["~"] | VB l -> [pbytes l]
  | VL l -> ":l" :: pnat (nat_of_int (List.length l)) :: List.map pbytes l
  | VErr -> [":err"]
let val_of = function
  | [":err"] -> VErr | ["~"] -> VNone
  | ":l" :: _ :: r -> VL (List.map bytes_tok r)
  | [t] -> if t <> "" && t.[0] = '$' then VB (bytes_tok t) else VZ (z_tok t)
  | _ -> raise (Bad "obs value")
let nt c = nat_tok (next c)
let sop_of c =
  match next c with
  | ":set" -> let i = nt c in QSet (i, b c)
  | ":asg" -> let i = nt c in QAsg (i, nt c)
  | ":app" -> let i = nt c in QApp (i, nt c)
  | ":appc" -> let i = nt c in QAppC (i, b c)
  | ":low" -> let i = nt c in QLow (i, nt c)
  | ":sub" -> let i = nt c in let j = nt c in let p = n_tok (next c) in QSub (i, j, p, n_tok (next c))
  | ":rc" -> let i = nt c in let c1 = n_tok (next c) in QRc (i, c1, n_tok (next c))
  | ":rs" -> let i = nt c in let x = b c in QRs (i, x, b c)
  | ":prt" -> let i = nt c in QPrt (i, nt c)
  | ":pad" -> let i = nt c in let j = nt c in QPad (i, j, n_tok (next c))
  | ":fmt" -> let i = nt c in let x = b c in QFmt (i, x, b c)
  | ":rep" -> let i = nt c in let x = b c in QRep (i, x, nt c)
  | ":plus" -> let i = nt c in let j = nt c in QPlus (i, j, nt c)
  (* the result object obj[3], constructed directly from the returned value *)
  | ":rnew" -> QRNew (b c)
  | ":rcopy" -> QRCopy (nt c)
  | ":rsub" -> let j = nt c in let p = n_tok (next c) in QRSub (j, p, n_tok (next c))
  | ":rsub1" -> let j = nt c in QRSub (j, n_tok (next c), n_of_hex "ffffffffffffffff")     (* subString(b) = subString(b, npos) *)
  | ":rft" -> let j = nt c in let c1 = n_tok (next c) in QRFromTill (j, c1, n_tok (next c))
  | ":rlow" -> QRLow (nt c)
  | ":rprt" -> QRPrt (nt c)
  | ":rplus" -> let j = nt c in QRPlus (j, nt c)
  | ":rfmt" -> let x = b c in QRFmt (x, b c)
  | ":rrep" -> let x = b c in QRRep (x, nt c)
  | ":rord" -> QROrd (n_tok (next c))
  | ":rmask" -> let v = n_tok (next c) in let m = n_tok (next c) in QRMask (v, m, n_tok (next c))
  | ":rbin" -> QRBin (b c)
  | ":rsplit" -> let j = nt c in let d = n_tok (next c) in QRSplit (j, d, nt c)
  (* observers *)
  | ":size" -> QSize (nt c)
  | ":at" -> let i = nt c in QAt (i, n_tok (next c))
  | ":cmp" -> let i = nt c in QCmp (i, nt c)
  | ":cpb" -> let i = nt c in QCpb (i, nt c)
  | ":find" -> let i = nt c in let st = n_tok (next c) in QFind (i, st, n_tok (next c))
  | t -> raise (Bad ("seq op " ^ t))
let cop_of c =
  match next c with
  | ":sp" -> let x = b c in KSplit (x, b c)
  | ":al" -> KAlloc (nt c)
  | ":put" -> let i = n_tok (next c) in KPut (i, b c)
  | ":sz" -> KSize
  | ":get" -> KGet (n_tok (next c))
  | ":snap" -> KSnap
  | t -> raise (Bad ("col op " ^ t))
(* aliasing: statements whose argument points into the object's own buffer *)
let aop_of c =
  match next c with
  | ":asgp" -> AAsgP (nt c)
  | ":asgs" -> AAsgS
  | ":ctor" -> ACtor (nt c)
  | ":appp" -> AAppP (nt c)
  | ":apps" -> AAppS
  | ":repl" -> let k1 = nt c in ARepl (k1, nt c)
  | ":cmpp" -> ACmpP (nt c)
  | ":cmps" -> ACmpS
  | ":sstr" -> let k1 = nt c in AStrStr (k1, nt c)
  | ":scmp" -> let k1 = nt c in AStrCmp (k1, nt c)
  | t -> raise (Bad ("alias op " ^ t))
let scn_of c =
  match peek c with
  | Some ":col" -> ignore (next c); SColl (counted c cop_of)
  | Some ":repeat" -> ignore (next c); let x = b c in SRepeat (x, nt c)
  | Some ":pad" -> ignore (next c); let x = b c in let y = b c in SPad (x, y, n_tok (next c))
  | Some ":seq" -> ignore (next c); SSeq (counted c sop_of)
  | Some ":split" -> ignore (next c); let x = b c in SSplit (x, n_tok (next c))
  | Some ":fromtill" -> ignore (next c); let x = b c in let c1 = n_tok (next c) in SFromTill (x, c1, n_tok (next c))
  | Some ":masked" -> ignore (next c); let v = n_tok (next c) in let m = n_tok (next c) in SMasked (v, m, n_tok (next c))
  | Some ":binary" -> ignore (next c); SBinary (b c)
  | _ -> SOp (op_of c)
let xscn_of c =
  match peek c with
  | Some ":als" -> ignore (next c); let a = b c in XAlias (a, counted c aop_of)
  | _ -> XOld (scn_of c)
let run_line ts = let c = { rest = ts } in let o = xscn_of c in
  if not (valid_x o) then raise (Bad "scenario outside the property's domain (valid = false)") else
  let r = run_x o in String.concat " " (pval r.o_val @ [pbool r.o_ref; pbool r.o_paired])
let spec_line ts os = let c = { rest = ts } in let o = xscn_of c in
  let n = List.length os in
  if n < 3 then false else
  let v = List.filteri (fun i _ -> i < n - 2) os in
  spec_x o { o_val = val_of v; o_ref = bool_tok (List.nth os (n - 2)); o_paired = bool_tok (List.nth os (n - 1)) }
