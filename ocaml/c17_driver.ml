(* C17 driver: scenario = list of ops; see checks/C17.py / harness/C17.cpp for the token grammar *)
let string_of_int_hex i = Printf.sprintf "%x" i
let kind_tok t = if int_tok t = 0 then KPlain else KSetPtr
let act_of k c =
  match k with
  | ":ai" -> let n = n_tok (next c) in Some (AInstall (n, kind_tok (next c)))
  | ":ar" -> Some (ARemove (n_tok (next c)))
  | ":ae" -> Some (AEnable (nat_tok (next c)))
  | ":ad" -> Some (ADisable (nat_tok (next c)))
  | ":az" -> Some AReset
  | ":ab" -> Some (AReinstall (nat_tok (next c)))
  | _ -> None
let act c = let k = next c in match act_of k c with Some a -> a | None -> raise (Bad ("action " ^ k))
let xstmt c =
  match next c with
  | ":set" -> let l = nat_tok (next c) in XS (SSet (l, n_tok (next c)))
  | ":wr" -> let l = nat_tok (next c) in XS (SWrite (l, n_tok (next c)))
  | ":fail" | ":failc" | ":thr" | ":thrstd" -> XS SAbort
  | k -> (match act_of k c with Some a -> XA a | None -> raise (Bad ("statement " ^ k)))
let xtest c =
  let a = counted c xstmt in let b = counted c xstmt in let d = counted c xstmt in
  { x_setup = a; x_body = b; x_teardown = d }
let op c =
  match next c with
  | ":inst" -> let n = n_tok (next c) in OInstall (n, kind_tok (next c))
  | ":act" -> let n = n_tok (next c) in let post = int_tok (next c) <> 0 in OActor (n, post, counted c act)
  | ":en" -> OEnable (nat_tok (next c))
  | ":dis" -> ODisable (nat_tok (next c))
  | ":rm" -> ORemove (n_tok (next c))
  | ":reset" -> OReset
  | ":reinst" -> OReinstall (nat_tok (next c))
  | ":test" -> OTest (xtest c)
  | ":run" -> ORun (counted c xtest)
  | ":runner" -> let rep = nat_tok (next c) in ORunner (rep, counted c xtest)
  | t -> raise (Bad ("op " ^ t))
let scenario ts = let c = { rest = ts } in let rec go acc = if at_end c then List.rev acc else go (op c :: acc) in go []
let pitem = function
  | ITest (f, pre, post, pool) ->
      String.concat " " ([":t"; pbool f; string_of_int_hex (List.length pre)] @ List.map pnat pre
                         @ [string_of_int_hex (List.length post)] @ List.map pnat post @ List.map pn pool)
  | IChain ids -> String.concat " " ([":c"; string_of_int_hex (List.length ids)] @ List.map pnat ids)
let run_line ts =
  let s = scenario ts in
  if not (valid s) then raise (Bad "scenario is not valid (UT_PTR_SET without a pointer plugin that stays, an acting plugin named by another action, a plugin object installed again while it is in the chain, location/value out of range, ...)")
  else match run s with [] -> ":none" | l -> String.concat " " (List.map pitem l)
let item c =
  match next c with
  | ":t" -> let f = bool_tok (next c) in let pre = counted c (fun c -> nat_tok (next c)) in
            let post = counted c (fun c -> nat_tok (next c)) in
            let pool = many c (int_of_nat pool_size) (fun c -> n_tok (next c)) in ITest (f, pre, post, pool)
  | ":c" -> IChain (counted c (fun c -> nat_tok (next c)))
  | t -> raise (Bad ("item " ^ t))
let spec_line ts os =
  let s = scenario ts in
  if not (valid s) then true (* not a scenario the property speaks about: not judged *) else
  let c = { rest = (if os = [":none"] then [] else os) } in
  let rec go acc = if at_end c then List.rev acc else go (item c :: acc) in
  spec s (go [])
