(* C17 driver: scenario = list of ops; see checks/C17.py / harness/C17.cpp for the token grammar *)
let string_of_int_hex i = Printf.sprintf "%x" i
let kind_tok t = if int_tok t = 0 then KPlain else KSetPtr
let act_of k c =
  match k with
  | ":ai" -> let n = n_tok (next c) in Some (AInstall (n, kind_tok (next c)))
  | ":ar" -> Some (ARemove (n_tok (next c)))
  | ":ae" -> Some (AEnable (nat_tok (next c)))
  | ":ad" -> Some (ADisable (nat_tok (next c)))
  | ":az" -> Some AReset
  | ":ab" -> Some (AReinstall (nat_tok (next c)))
  | _ -> None
let act c = let k = next c in match act_of k c with Some a -> a | None -> raise (Bad ("action " ^ k))
let ystmt c =
  match next c with
  | ":set" -> let l = nat_tok (next c) in YX (XS (SSet (l, n_tok (next c))))
  | ":wr" -> let l = nat_tok (next c) in YX (XS (SWrite (l, n_tok (next c))))
  | ":fail" | ":failc" -> YX (XS SAbort)
  | ":thr" -> YThrow false
  | ":thrstd" -> YThrow true
  | k -> (match act_of k c with Some a -> YX (XA a) | None -> raise (Bad ("statement " ^ k)))
let ytest c =
  let a = counted c ystmt in let b = counted c ystmt in let d = counted c ystmt in
  { y_setup = a; y_body = b; y_teardown = d }
let flag c = int_tok (next c) <> 0
(* one token-level op -> process-level ops.  The old `:runner <rep>` is the runner with -e iff a scripted test throws and -r<rep>,
   followed by UtestShell::setRethrowExceptions(false) -- which is what the harness does for it *)
let op c =
  match next c with
  | ":inst" -> let n = n_tok (next c) in [PReg (OInstall (n, kind_tok (next c)))]
  | ":act" -> let n = n_tok (next c) in let post = int_tok (next c) <> 0 in [PReg (OActor (n, post, counted c act))]
  | ":en" -> [PReg (OEnable (nat_tok (next c)))]
  | ":dis" -> [PReg (ODisable (nat_tok (next c)))]
  | ":rm" -> [PReg (ORemove (n_tok (next c)))]
  | ":reset" -> [PReg OReset]
  | ":reinst" -> [PReg (OReinstall (nat_tok (next c)))]
  | ":test" -> [PTest (ytest c)]
  | ":run" -> [PRun (counted c ytest)]
  | ":runner" ->
      let rep = nat_tok (next c) in let ts = counted c ytest in
      [PRunner ({ cl_e = List.exists has_throw ts; cl_f = false; cl_p = false; cl_v = nat_tok "0"; cl_c = false; cl_rep = rep }, ts);
       PRethrow false]
  | ":runnerx" ->
      let e = flag c in let f = flag c in let p = flag c in let v = nat_tok (next c) in let cc = flag c in
      let rep = nat_tok (next c) in let ts = counted c ytest in
      [PRunner ({ cl_e = e; cl_f = f; cl_p = p; cl_v = v; cl_c = cc; cl_rep = rep }, ts)]
  | ":rethrow" -> [PRethrow (flag c)]
  | ":crashonfail" -> [PCrashOnFail (flag c)]
  | t -> raise (Bad ("op " ^ t))
let scenario ts = let c = { rest = ts } in let rec go acc = if at_end c then List.concat (List.rev acc) else go (op c :: acc) in go []
let pitem = function
  | PI (ITest (f, pre, post, pool)) ->
      String.concat " " ([":t"; pbool f; string_of_int_hex (List.length pre)] @ List.map pnat pre
                         @ [string_of_int_hex (List.length post)] @ List.map pnat post @ List.map pn pool)
  | PI (IChain ids) -> String.concat " " ([":c"; string_of_int_hex (List.length ids)] @ List.map pnat ids)
  | PEscaped -> ":x"
let run_line ts =
  let s = scenario ts in
  if not (pvalid s) then raise (Bad "scenario is not valid (UT_PTR_SET without a pointer plugin that stays, an acting plugin named by another action, a plugin object installed again while it is in the chain, location/value out of range, a throwing test where exceptions are rethrown, registry actions in a session that uses -p, ...)")
  else match prun s with [] -> ":none" | l -> String.concat " " (List.map pitem l)
let item c =
  match next c with
  | ":t" -> let f = bool_tok (next c) in let pre = counted c (fun c -> nat_tok (next c)) in
            let post = counted c (fun c -> nat_tok (next c)) in
            let pool = many c (int_of_nat pool_size) (fun c -> n_tok (next c)) in PI (ITest (f, pre, post, pool))
  | ":c" -> PI (IChain (counted c (fun c -> nat_tok (next c))))
  | ":x" -> PEscaped
  | t -> raise (Bad ("item " ^ t))
let spec_line ts os =
  let s = scenario ts in
  if not (pvalid s) then true (* not a scenario the property speaks about: not judged *) else
  let c = { rest = (if os = [":none"] then [] else os) } in
  let rec go acc = if at_end c then List.rev acc else go (item c :: acc) in
  pspec s (go [])
