(* C03 driver: scenario = <text-flag> <MACRO> operands...   (grammar: checks/C03.py) *)
let oty_of = function
  | 0 -> OSChar | 1 -> OUChar | 2 -> OShort | 3 -> OUShort | 4 -> OI TInt | 5 -> OI TUInt | 6 -> OI TLong | 7 -> OI TULong
  | 8 -> OI TLLong | 9 -> OI TULLong | _ -> raise (Bad "operand type")
let k2_of = function
  | "CHECK_EQUAL" -> Some CHECK_EQUAL | "LONGS_EQUAL" -> Some LONGS_EQUAL | "UNSIGNED_LONGS_EQUAL" -> Some UNSIGNED_LONGS_EQUAL
  | "LONGLONGS_EQUAL" -> Some LONGLONGS_EQUAL | "UNSIGNED_LONGLONGS_EQUAL" -> Some UNSIGNED_LONGLONGS_EQUAL
  | "BYTES_EQUAL" -> Some BYTES_EQUAL | "SIGNED_BYTES_EQUAL" -> Some SIGNED_BYTES_EQUAL
  | "CHECK_EQUAL_C_BOOL" -> Some C_BOOL | "CHECK_EQUAL_C_INT" -> Some C_INT | "CHECK_EQUAL_C_UINT" -> Some C_UINT
  | "CHECK_EQUAL_C_LONG" -> Some C_LONG | "CHECK_EQUAL_C_ULONG" -> Some C_ULONG | "CHECK_EQUAL_C_LONGLONG" -> Some C_LONGLONG
  | "CHECK_EQUAL_C_ULONGLONG" -> Some C_ULONGLONG | "CHECK_EQUAL_C_CHAR" -> Some C_CHAR | "CHECK_EQUAL_C_UBYTE" -> Some C_UBYTE
  | "CHECK_EQUAL_C_SBYTE" -> Some C_SBYTE | _ -> None
let relop_of = function 0 -> RLt | 1 -> RLe | 2 -> RGt | 3 -> RGe | 4 -> REq | 5 -> RNe | _ -> raise (Bad "relop")
let operand c = let t = oty_of (int_tok (next c)) in let z = z_tok (next c) in (t, z)
let dbl c = dbl_of_bits (z_tok (next c))
let parse ts : check =
  let c = { rest = ts } in
  let _text = next c in
  let k = next c in
  match k2_of k with
  | Some k2 -> let (ta, za) = operand c in let (tb, zb) = operand c in Int2 (k2, ta, za, tb, zb)
  | None ->
    match k with
    | "CHECK" -> let (t, z) = operand c in Bool1 (K_CHECK, t, z)
    | "CHECK_TRUE" -> let (t, z) = operand c in Bool1 (K_CHECK_TRUE, t, z)
    | "CHECK_FALSE" -> let (t, z) = operand c in Bool1 (K_CHECK_FALSE, t, z)
    | "CHECK_C" -> let (t, z) = operand c in Bool1 (K_CHECK_C, t, z)
    | "CHECK_EQUAL_ZERO" -> let (t, z) = operand c in EqualZero (t, z)
    | "CHECK_COMPARE" -> let op = relop_of (int_tok (next c)) in let (ta, za) = operand c in let (tb, zb) = operand c in Compare (op, ta, za, tb, zb)
    | "ENUMS_EQUAL_INT" -> let (t, za) = operand c in let zb = z_tok (next c) in Enums (OI TInt, t, za, zb)
    | "ENUMS_EQUAL_TYPE" -> let u = oty_of (int_tok (next c)) in let (t, za) = operand c in let zb = z_tok (next c) in Enums (u, t, za, zb)
    | "POINTERS_EQUAL" -> let e = z_tok (next c) in let a = z_tok (next c) in Ptr (K_POINTERS, e, a)
    | "FUNCTIONPOINTERS_EQUAL" -> let e = z_tok (next c) in let a = z_tok (next c) in Ptr (K_FUNCTIONPOINTERS, e, a)
    | "CHECK_EQUAL_C_POINTER" -> let e = z_tok (next c) in let a = z_tok (next c) in Ptr (K_C_POINTER, e, a)
    | "DOUBLES_EQUAL" -> let e = dbl c in let a = dbl c in let t = dbl c in Dbl (false, e, a, t)
    | "CHECK_EQUAL_C_REAL" -> let e = dbl c in let a = dbl c in let t = dbl c in Dbl (true, e, a, t)
    | "STRCMP_EQUAL" | "STRCMP_NOCASE_EQUAL" | "STRCMP_CONTAINS" | "STRCMP_NOCASE_CONTAINS" | "CHECK_EQUAL_C_STRING" ->
        let e = optbytes_tok (next c) in let a = optbytes_tok (next c) in
        let ks = (match k with "STRCMP_EQUAL" -> K_STRCMP | "STRCMP_NOCASE_EQUAL" -> K_NOCASE | "STRCMP_CONTAINS" -> K_CONTAINS
                               | "STRCMP_NOCASE_CONTAINS" -> K_NOCASE_CONTAINS | _ -> K_C_STRING) in
        Str (ks, e, a, N0)
    | "STRNCMP_EQUAL" -> let e = optbytes_tok (next c) in let a = optbytes_tok (next c) in let n = n_tok (next c) in Str (K_STRNCMP, e, a, n)
    | "MEMCMP_EQUAL" | "CHECK_EQUAL_C_MEMCMP" ->
        let e = optbytes_tok (next c) in let a = optbytes_tok (next c) in let n = n_tok (next c) in Mem ((k <> "MEMCMP_EQUAL"), e, a, n)
    | "BITS_EQUAL" | "CHECK_EQUAL_C_BITS" ->
        let (te, ze) = operand c in let (ta, za) = operand c in let zm = z_tok (next c) in Bits ((k <> "BITS_EQUAL"), te, ze, ta, za, zm)
    | "CHECK_THROWS" -> Throws (match int_tok (next c) with 0 -> ThrowsNothing | 1 -> ThrowsExpected | _ -> ThrowsOther)
    | "FAIL" | "FAIL_TEST" | "FAIL_C" | "FAIL_TEXT_C" -> Fail
    | _ -> raise (Bad ("unknown check " ^ k))
(* operand expressions with side effects: <text> SE_CHECK_EQUAL <t> <script> <script> | SE_CHECK_EQUAL_ZERO <t> <script>
   | SE_CHECK_COMPARE <op> <t> <script> <script>;   script = <count >= 1> value...  (value of the 1st, 2nd, ... evaluation) *)
let script c = match counted c (fun c -> z_tok (next c)) with
  | [] -> raise (Bad "empty script")
  | z :: r -> { s_first = z; s_later = r }
let xparse ts : xcheck =
  match ts with
  | _ :: "SE_CHECK_EQUAL" :: r -> let c = { rest = r } in
      let t = oty_of (int_tok (next c)) in let se = script c in let sa = script c in XSe (SeEqual (t, se, sa))
  | _ :: "SE_CHECK_EQUAL_ZERO" :: r -> let c = { rest = r } in
      let t = oty_of (int_tok (next c)) in let sa = script c in XSe (SeZero (t, sa))
  | _ :: "SE_CHECK_COMPARE" :: r -> let c = { rest = r } in
      let op = relop_of (int_tok (next c)) in let t = oty_of (int_tok (next c)) in let sf = script c in let ss = script c in
      XSe (SeCompare (op, t, sf, ss))
  | _ -> XOld (parse ts)
let pobs o = String.concat " " [pn o.o_failures; pn o.o_checks; pbool o.o_after]
let run_line ts = let x = xparse ts in
  if not (x_valid x) then raise (Bad "operand out of range of its type / block shorter than length") else
  let o = x_run x in
  match x with XOld _ -> pobs o.xo | XSe _ -> String.concat " " [pobs o.xo; pn o.xo_ne; pn o.xo_na]
let spec_line ts os = let x = xparse ts in
  match x, os with
  | XOld _, [f; n; a] -> x_spec x { xo = { o_failures = n_tok f; o_checks = n_tok n; o_after = bool_tok a }; xo_ne = N0; xo_na = N0 }
  | XSe _, [f; n; a; ne; na] ->
      x_spec x { xo = { o_failures = n_tok f; o_checks = n_tok n; o_after = bool_tok a }; xo_ne = n_tok ne; xo_na = n_tok na }
  | _ -> false
