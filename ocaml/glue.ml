(* glue.ml -- generic token <-> extracted-datatype conversions (textually included after `open <Prop>_model`).
   Token forms: integer = [-]hex ; bytes = $hexpairs ; NULL = ~ ; symbol = :name *)
exception Bad of string
let hexval c = match c with
  | '0'..'9' -> Char.code c - 48 | 'a'..'f' -> Char.code c - 87 | 'A'..'F' -> Char.code c - 55
  | _ -> raise (Bad (Printf.sprintf "hex digit %c" c))
let bits_of_hex (s:string) : bool list =
  let l = ref [] in
  String.iter (fun c -> let d = hexval c in
    l := (d land 1 = 1) :: (d land 2 = 2) :: (d land 4 = 4) :: (d land 8 = 8) :: !l) s; !l
let rec pos_of_bits = function
  | [] -> None
  | b :: rest -> (match pos_of_bits rest with
      | None -> if b then Some XH else None
      | Some p -> Some (if b then XI p else XO p))
let n_of_hex s = match pos_of_bits (bits_of_hex s) with None -> N0 | Some p -> Npos p
let z_tok (s:string) = if s = "" then raise (Bad "empty int") else
  if s.[0] = '-' then (match pos_of_bits (bits_of_hex (String.sub s 1 (String.length s - 1))) with None -> Z0 | Some p -> Zneg p)
  else (match pos_of_bits (bits_of_hex s) with None -> Z0 | Some p -> Zpos p)
let n_tok s = n_of_hex s
let int_tok (s:string) : int = int_of_string ("0x" ^ s)
let rec nat_of_int i = if i <= 0 then O else S (nat_of_int (i-1))
let nat_tok s = nat_of_int (int_tok s)
let n_of_int i = n_of_hex (Printf.sprintf "%x" i)
let z_of_int i = if i < 0 then z_tok (Printf.sprintf "-%x" (-i)) else z_tok (Printf.sprintf "%x" i)
let bool_tok s = (s <> "0")
let rec bits_of_pos = function XH -> [true] | XO p -> false :: bits_of_pos p | XI p -> true :: bits_of_pos p
let hex_of_pos p =
  let rec nibs = function
    | [] -> []
    | [a] -> [(if a then 1 else 0)]
    | [a;b] -> [(if a then 1 else 0) + (if b then 2 else 0)]
    | [a;b;c] -> [(if a then 1 else 0) + (if b then 2 else 0) + (if c then 4 else 0)]
    | a::b::c::d::r -> ((if a then 1 else 0) + (if b then 2 else 0) + (if c then 4 else 0) + (if d then 8 else 0)) :: nibs r in
  let ns = List.rev (nibs (bits_of_pos p)) in
  String.concat "" (List.map (fun d -> Printf.sprintf "%x" d) ns)
let pn = function N0 -> "0" | Npos p -> hex_of_pos p
let pz = function Z0 -> "0" | Zpos p -> hex_of_pos p | Zneg p -> "-" ^ hex_of_pos p
let rec int_of_nat = function O -> 0 | S n -> 1 + int_of_nat n
let int_of_n n = int_of_string ("0x" ^ pn n)
let pnat n = Printf.sprintf "%x" (int_of_nat n)
let pbool b = if b then "1" else "0"
(* byte strings: list of N *)
let bytes_tok (s:string) : n list =
  if s = "" || s.[0] <> '$' then raise (Bad ("bytes token " ^ s)) else
  let k = (String.length s - 1) / 2 in
  List.init k (fun i -> n_of_int (hexval s.[1+2*i] * 16 + hexval s.[2+2*i]))
let optbytes_tok s = if s = "~" then None else Some (bytes_tok s)
let pbytes (l : n list) = "$" ^ String.concat "" (List.map (fun b -> Printf.sprintf "%02x" (int_of_n b)) l)
let poptbytes = function None -> "~" | Some l -> pbytes l
let toks (line:string) : string list = List.filter (fun s -> s <> "") (String.split_on_char ' ' line)
(* a cursor over tokens *)
type cur = { mutable rest : string list }
let next c = match c.rest with [] -> raise (Bad "unexpected end of tokens") | t :: r -> c.rest <- r; t
let peek c = match c.rest with [] -> None | t :: _ -> Some t
let at_end c = c.rest = []
let rec many c n f = if n <= 0 then [] else let x = f c in x :: many c (n-1) f
let counted c f = let n = int_tok (next c) in many c n f
