(* C19 driver: scenario = flat list of ops (:M scope | :S.field args | :E.field args | :A.field args | :T); see checks/C19.py.
   Observation = ":c <half> :x <half>",
   half = <t> (<failures> <crash hook runs> <op|~> <text|~>)^t <n> (<op> :<field> :<kind> <payload>)^n <k> (<op> <bytes>)^k   (t = number of tests) *)
let name_of_string (s : string) : n list = List.init (String.length s) (fun i -> n_of_int (Char.code s.[i]))
let is_sym t = String.length t > 0 && t.[0] = ':'
let parse_ops (ts : string list) : op list =
  let c = { rest = ts } in
  let rec args () = match peek c with
    | Some t when not (is_sym t) -> let t = next c in
        let a = if t = "~" then AB None else if t.[0] = '$' then AB (Some (bytes_tok t)) else AZ (z_tok t) in a :: args ()
    | _ -> [] in
  let rec go () = if at_end c then [] else begin
    let t = next c in
    if not (is_sym t) then raise (Bad ("op symbol expected: " ^ t));
    let o =
      if t = ":M" then (match args () with [AB sc] -> OSelect sc | _ -> raise (Bad ":M takes one scope"))
      else if t = ":T" then (match args () with [] -> ONewTest | _ -> raise (Bad ":T takes no argument"))
      else if String.length t > 3 && t.[2] = '.' then begin
        let tb = (match t.[1] with 'S' -> TblS | 'E' -> TblE | 'A' -> TblA | _ -> raise (Bad ("table " ^ t))) in
        let f = name_of_string (String.sub t 3 (String.length t - 3)) in
        OCall (tb, f, args ()) end
      else raise (Bad ("op " ^ t)) in
    o :: go () end in
  go ()
let ity_of = function 0 -> TInt | 1 -> TUInt | 2 -> TLong | 3 -> TULong | 4 -> TLLong | 5 -> TULLong | _ -> raise (Bad "ity")
let ity_no = function TInt -> 0 | TUInt -> 1 | TLong -> 2 | TULong -> 3 | TLLong -> 4 | TULLong -> 5
let pcanon = function
  | CB b -> ":b " ^ pbool b
  | CI (t, z) -> Printf.sprintf ":i%d %s" (ity_no t) (pz z)
  | CD z -> ":d " ^ pz z
  | CS s -> ":s " ^ poptbytes s
  | CP (k, z) -> (match k with PVoid -> ":p " | PConst -> ":cp " | PFunc -> ":fp " | PMem -> ":mem " | PObj -> ":obj ") ^ pz z
let ptest (t : tres) =
  let (nf, fo, tx) = (match t.t_fail with None -> ("0", "~", "~") | Some (i, x) -> ("1", pn i, pbytes x)) in
  String.concat " " [nf; pn t.t_crash; fo; tx]
let phalf (h : half) =
  String.concat " " ([Printf.sprintf "%x" (List.length h.h_tests)] @ List.map ptest h.h_tests @ [Printf.sprintf "%x" (List.length h.h_vals)]
    @ List.map (fun v -> pn v.v_op ^ " :? " ^ pcanon v.v_canon) h.h_vals
    @ [Printf.sprintf "%x" (List.length h.h_outs)] @ List.map (fun (i, b) -> pn i ^ " " ^ pbytes b) h.h_outs)
let run_line ts =
  let ops = parse_ops ts in
  if not (valid ops) then raise (Bad "scenario not valid (unknown entry point or arguments do not fit the C signature)");
  let o = run ops in ":c " ^ phalf o.o_c ^ " :x " ^ phalf o.o_x
(* failures and the op at which the test was left are one key: op + 2^20 * failures *)
let parse_half (c : cur) : half =
  let tests = counted c (fun c ->
    let nf = int_tok (next c) in
    let crash = n_tok (next c) in
    let fo = next c in
    let tx = next c in
    let fail = if nf = 0 && fo = "~" then None
               else Some (n_of_int ((if fo = "~" then 0xfffff else int_tok fo) + 1048576 * nf), (if tx = "~" then [] else bytes_tok tx)) in
    { t_fail = fail; t_crash = crash }) in
  let vals = counted c (fun c ->
    let i = n_tok (next c) in
    let _field = next c in
    let k = next c in
    let p = next c in
    let canon = (match k with
      | ":b" -> CB (p <> "0")
      | ":i0" | ":i1" | ":i2" | ":i3" | ":i4" | ":i5" -> CI (ity_of (Char.code k.[2] - 48), z_tok p)
      | ":d" -> CD (z_tok p)
      | ":s" -> CS (optbytes_tok p)
      | ":p" -> CP (PVoid, z_tok p) | ":cp" -> CP (PConst, z_tok p) | ":fp" -> CP (PFunc, z_tok p)
      | ":mem" -> CP (PMem, z_tok p) | ":obj" -> CP (PObj, z_tok p)
      | _ -> raise (Bad ("value kind " ^ k))) in
    { v_op = i; v_canon = canon }) in
  let outs = counted c (fun c -> let i = n_tok (next c) in let b = bytes_tok (next c) in (i, b)) in
  { h_tests = tests; h_vals = vals; h_outs = outs }
let spec_line ts os =
  let ops = parse_ops ts in
  let c = { rest = os } in
  if next c <> ":c" then false else
  let hc = parse_half c in
  if next c <> ":x" then false else
  let hx = parse_half c in
  if not (at_end c) then false else
  spec ops { o_c = hc; o_x = hx }
