(* C20 driver: scenario = [ :con <sink 0|1|2> <verbosity 0|1|2> ] [ :opt <run-ignored 0|1> <passes> ] <dur> <nfilters> { <name> } <ntests> { <group> <name> <file> <line> <ignored> <nstmts> { :p <text> | :f <file> <line> <msg> | :x <file> <line> <msg> } }
   (without the :con prefix: sink 0 = printBuffer overridden, quiet; without the :opt prefix: run-ignored off, one pass)
   observation = <stream> <n> { <executions of the body of test i in pass p> }  (pass-major, n = passes * ntests).
   Extra form (parser differential, no implementation involved): :raw <bytes>; the model answers
   :parsed 0   or   :parsed 1 <nmsgs> { <name> <nattrs> { <key> <value> } }   (checks/C20.py compares this with its own decoder);
   :rawv <bytes> = the same for the message-anywhere reading used for very verbose streams *)
let stmt c =
  match next c with
  | ":p" -> SPrint (bytes_tok (next c))
  | ":f" -> let f = bytes_tok (next c) in let l = n_tok (next c) in let m = bytes_tok (next c) in SFail (f, l, m)
  | ":x" -> let f = bytes_tok (next c) in let l = n_tok (next c) in let m = bytes_tok (next c) in SFailStop (f, l, m)
  | t -> raise (Bad ("stmt tag " ^ t))
let test c =
  let g = bytes_tok (next c) in let n = bytes_tok (next c) in let f = bytes_tok (next c) in let l = n_tok (next c) in
  let ign = bool_tok (next c) in let body = counted c stmt in
  { t_group = g; t_name = n; t_file = f; t_line = l; t_ignored = ign; t_body = body }
let scenario c =
  let (sink, verb) =
    if peek c = Some ":con" then (ignore (next c); let k = n_tok (next c) in let v = n_tok (next c) in (k, v)) else (n_tok "0", n_tok "0") in
  let (ri, passes) =
    if peek c = Some ":opt" then (ignore (next c); let r = bool_tok (next c) in let p = int_tok (next c) in (r, p)) else (false, 1) in
  if passes < 0 || passes > 8 then raise (Bad "more than 8 passes");
  let d = n_tok (next c) in let fs = counted c (fun c -> bytes_tok (next c)) in let ts = counted c test in
  { s_dur = d; s_ri = ri; s_passes = nat_of_int passes; s_filters = fs; s_tests = ts; s_verb = verb; s_sink = sink }
let pobs o = String.concat " " (pbytes o.o_stream :: Printf.sprintf "%x" (List.length o.o_exec) :: List.map pn o.o_exec)
let obs_toks os =
  match os with
  | st :: n :: cs when List.length cs = int_tok n -> Some { o_stream = bytes_tok st; o_exec = List.map n_tok cs }
  | _ -> None
let pparsed r =
  match r with
  | None -> ":parsed 0"
  | Some ms ->
      String.concat " " (":parsed" :: "1" :: Printf.sprintf "%x" (List.length ms) ::
        List.concat_map (fun (nm, attrs) -> pbytes nm :: Printf.sprintf "%x" (List.length attrs) :: List.concat_map (fun (k, v) -> [pbytes k; pbytes v]) attrs) ms)
let run_line ts =
  match ts with
  | ":raw" :: b :: _ -> pparsed (parse_result (bytes_tok b))
  | ":rawv" :: b :: _ -> pparsed (parse_result_any (bytes_tok b))
  | _ -> let c = { rest = ts } in let s = scenario c in
         if not (valid s) then raise (Bad "scenario outside the property's domain (printing test body, number beyond size_t, NUL in a string, unknown sink / verbosity)") else pobs (run s)
let spec_line ts os =
  match ts with
  | ":raw" :: _ -> true
  | ":rawv" :: _ -> true
  | _ -> let c = { rest = ts } in let s = scenario c in
         (match obs_toks os with Some o -> spec s o | None -> false)
