(* C20 driver: scenario = [ :con <sink 0|1|2> <verbosity 0|1|2> ] [ :opt <run-ignored 0|1> <passes> ] [ :plug <mock 0|1> <leak 0|1> ] <dur> <nfilters> { <name> } <ntests> { <group> <name> <file> <line> <ignored> <nstmts> { <stmt> } }
   stmt = :f <file> <line> <msg> | :x <file> <line> <msg> | :S <stage 0..4> | :sep <code 1..3> | :k <kind 2..6> <copies> <stop> <file> <line> <msg>
        | :e <std 0|1> <what> | :m <name> | :u <name> | :l <size>            (:p <text> is outside the property's domain)
   (without the :con prefix: sink 0 = printBuffer overridden, quiet; without the :opt prefix: run-ignored off, one pass; without :plug: neither plugin;
    statements belong to the body until a :S says otherwise)
   observation = <stream> <n> { <executions of the body of test i in pass p> } <k> { <ordinal of a failure whose text the library composes> }
   (pass-major, n = passes * ntests; the ordinals are not read by the oracle).
   Extra form (parser differential, no implementation involved): :raw <bytes>; the model answers
   :parsed 0   or   :parsed 1 <nmsgs> { <name> <nattrs> { <key> <value> } }   (checks/C20.py compares this with its own decoder);
   :rawv <bytes> = the same for the message-anywhere reading used for very verbose streams *)
let kind_of = function
  | 2 -> K2 | 3 -> K3 | 4 -> K4 | 5 -> KD3 | 6 -> KD2
  | k -> raise (Bad (Printf.sprintf "failure kind %d" k))
type st = Stmt of xstmt | Stage of int | Sep of n | Print
let stmt c =
  match next c with
  | ":p" -> ignore (next c); Print
  | ":f" -> let f = bytes_tok (next c) in let l = n_tok (next c) in let m = bytes_tok (next c) in Stmt (XFail (KD3, O, false, f, l, m))
  | ":x" -> let f = bytes_tok (next c) in let l = n_tok (next c) in let m = bytes_tok (next c) in Stmt (XFail (KD3, O, true, f, l, m))
  | ":S" -> let k = int_tok (next c) in if k < 0 || k > 4 then raise (Bad "stage") else Stage k
  | ":sep" -> Sep (n_tok (next c))
  | ":k" -> let k = kind_of (int_tok (next c)) in let n = nat_tok (next c) in let stop = bool_tok (next c) in
            let f = bytes_tok (next c) in let l = n_tok (next c) in let m = bytes_tok (next c) in Stmt (XFail (k, n, stop, f, l, m))
  | ":e" -> let s = bool_tok (next c) in let w = bytes_tok (next c) in Stmt (XThrow (s, w))
  | ":m" -> Stmt (XExpect (bytes_tok (next c)))
  | ":u" -> Stmt (XUnexpected (bytes_tok (next c)))
  | ":l" -> Stmt (XLeak (n_tok (next c)))
  | t -> raise (Bad ("stmt tag " ^ t))
let test c =
  let g = bytes_tok (next c) in let n = bytes_tok (next c) in let f = bytes_tok (next c) in let l = n_tok (next c) in
  let ign = bool_tok (next c) in let items = counted c stmt in
  let stages = Array.make 5 [] in
  let cur = ref 2 in let sep = ref (n_tok "0") in
  List.iter (function
    | Stmt s -> stages.(!cur) <- s :: stages.(!cur)
    | Stage k -> cur := k
    | Sep k -> sep := k
    | Print -> raise (Bad "scenario outside the property's domain (printing test body)")) items;
  { x_group = g; x_name = n; x_file = f; x_line = l; x_ignored = ign; x_sep = !sep;
    x_pre = List.rev stages.(0); x_setup = List.rev stages.(1); x_body = List.rev stages.(2); x_teardown = List.rev stages.(3); x_post = List.rev stages.(4) }
let scenario c =
  let (sink, verb) =
    if peek c = Some ":con" then (ignore (next c); let k = n_tok (next c) in let v = n_tok (next c) in (k, v)) else (n_tok "0", n_tok "0") in
  let (ri, passes) =
    if peek c = Some ":opt" then (ignore (next c); let r = bool_tok (next c) in let p = int_tok (next c) in (r, p)) else (false, 1) in
  let (mock, leak) =
    if peek c = Some ":plug" then (ignore (next c); let m = bool_tok (next c) in let l = bool_tok (next c) in (m, l)) else (false, false) in
  if passes < 0 || passes > 8 then raise (Bad "more than 8 passes");
  let d = n_tok (next c) in let fs = counted c (fun c -> bytes_tok (next c)) in let ts = counted c test in
  { xs_dur = d; xs_ri = ri; xs_passes = nat_of_int passes; xs_filters = fs; xs_tests = ts; xs_verb = verb; xs_sink = sink; xs_mock = mock; xs_leak = leak }
let plist l = Printf.sprintf "%x" (List.length l) :: List.map pn l
let pobs o marks = String.concat " " (pbytes o.o_stream :: (plist o.o_exec @ plist marks))
let obs_toks os =
  match os with
  | st :: n :: rest ->
      let k = int_tok n in
      if List.length rest < k then None
      else Some { o_stream = bytes_tok st; o_exec = List.map n_tok (List.filteri (fun i _ -> i < k) rest) }
  | _ -> None
let pparsed r =
  match r with
  | None -> ":parsed 0"
  | Some ms ->
      String.concat " " (":parsed" :: "1" :: Printf.sprintf "%x" (List.length ms) ::
        List.concat_map (fun (nm, attrs) -> pbytes nm :: Printf.sprintf "%x" (List.length attrs) :: List.concat_map (fun (k, v) -> [pbytes k; pbytes v]) attrs) ms)
let run_line ts =
  match ts with
  | ":raw" :: b :: _ -> pparsed (parse_result (bytes_tok b))
  | ":rawv" :: b :: _ -> pparsed (parse_result_any (bytes_tok b))
  | _ -> let c = { rest = ts } in let s = scenario c in
         if not (xvalid s) then raise (Bad "scenario outside the property's domain (number beyond size_t, NUL in a string, unknown sink / verbosity / separate-process code, a leaving statement in a plugin action, mock statements without the mock plugin, an actual call that is expected)")
         else pobs (xrun s) (xrun_marks s)
let spec_line ts os =
  match ts with
  | ":raw" :: _ -> true
  | ":rawv" :: _ -> true
  | _ -> let c = { rest = ts } in let s = scenario c in
         (match obs_toks os with Some o -> xspec s o | None -> false)
