(* C20 driver: scenario = <dur> <nfilters> { <name> } <ntests> { <group> <name> <file> <line> <ignored> <nstmts> { :p <text> | :f <file> <line> <msg> | :x <file> <line> <msg> } }
   observation = <stream>.
   Extra form (parser differential, no implementation involved): :raw <bytes>; the model answers
   :parsed 0   or   :parsed 1 <nmsgs> { <name> <nattrs> { <key> <value> } }   (checks/C20.py compares this with its own decoder) *)
let stmt c =
  match next c with
  | ":p" -> SPrint (bytes_tok (next c))
  | ":f" -> let f = bytes_tok (next c) in let l = n_tok (next c) in let m = bytes_tok (next c) in SFail (f, l, m)
  | ":x" -> let f = bytes_tok (next c) in let l = n_tok (next c) in let m = bytes_tok (next c) in SFailStop (f, l, m)
  | t -> raise (Bad ("stmt tag " ^ t))
let test c =
  let g = bytes_tok (next c) in let n = bytes_tok (next c) in let f = bytes_tok (next c) in let l = n_tok (next c) in
  let ign = bool_tok (next c) in let body = counted c stmt in
  { t_group = g; t_name = n; t_file = f; t_line = l; t_ignored = ign; t_body = body }
let scenario c =
  let d = n_tok (next c) in let fs = counted c (fun c -> bytes_tok (next c)) in let ts = counted c test in
  { s_dur = d; s_filters = fs; s_tests = ts }
let pparsed r =
  match r with
  | None -> ":parsed 0"
  | Some ms ->
      String.concat " " (":parsed" :: "1" :: Printf.sprintf "%x" (List.length ms) ::
        List.concat_map (fun (nm, attrs) -> pbytes nm :: Printf.sprintf "%x" (List.length attrs) :: List.concat_map (fun (k, v) -> [pbytes k; pbytes v]) attrs) ms)
let run_line ts =
  match ts with
  | ":raw" :: b :: _ -> pparsed (parse_result (bytes_tok b))
  | _ -> let c = { rest = ts } in let s = scenario c in
         if not (valid s) then raise (Bad "scenario outside the property's domain (printing test body, number beyond size_t, NUL in a string)") else pbytes (run s)
let spec_line ts os =
  match ts with
  | ":raw" :: _ -> true
  | _ -> let c = { rest = ts } in let s = scenario c in
         (match os with [o] -> spec s (bytes_tok o) | _ -> false)
