(* C15 driver; token grammar in checks/C15.py.
   scenario  :F <op>*   op ::= :g n | :l n $file line | :a fam $file line | :k | :c
             :C custom <cop>*   cop ::= :o | :r | :d n | :m fam
             :R backing <rop>*  rop ::= :o | :r | :d n | :m fam | :s fam slot | :f slot | :y slot size | :g n | :c
             :T pre <tev>* :| <tev>* :| <tev>*   (one test: setup :| body :| teardown)   tev ::= op | :+ (addFailure) | :! (FAIL)
   observation items: 0|1|2 (block | NULL | bad_alloc), :n | :G n | :L $file line | :X (check), :A 0|1|2|3 (reset),
   :P res intact (dup), :Q failure given (free), :Y res failure intact (realloc), :E tracked clean (end of an :R scenario),
   :K before after <check item> (check asked inside a test), :p n (end of a test function: events started) *)
let fam_of = function 0 -> FDirect | 1 -> FMalloc | 2 -> FCalloc | 3 -> FStrdup | 4 -> FStrndup | 5 -> FNew | 6 -> FNewArr
  | 7 -> FNewNT | 8 -> FNewArrNT | _ -> raise (Bad "family")
let cfam_of = function 0 -> CMalloc | 1 -> CCalloc | 2 -> CStrdup | 3 -> CStrndup | _ -> raise (Bad "cfam")
let loc_tok c = let f = bytes_tok (next c) in let l = n_tok (next c) in (f, l)
let rec ops c = if at_end c then [] else
  let o = (match next c with
    | ":g" -> FailG (z_tok (next c))
    | ":l" -> let n = z_tok (next c) in FailAt (n, loc_tok c)
    | ":a" -> let f = fam_of (int_tok (next c)) in Alloc (f, loc_tok c)
    | ":k" -> Check
    | ":c" -> Clear
    | t -> raise (Bad ("op " ^ t))) in o :: ops c
(* events of one test function: up to the separator :| (consumed) or the end *)
let rec tevs c = if at_end c then [] else
  match next c with
  | ":|" -> []
  | ":+" -> TAdd :: tevs c
  | ":!" -> TFail :: tevs c
  | ":g" -> let n = z_tok (next c) in TOp (FailG n) :: tevs c
  | ":l" -> let n = z_tok (next c) in let l = loc_tok c in TOp (FailAt (n, l)) :: tevs c
  | ":a" -> let f = fam_of (int_tok (next c)) in let l = loc_tok c in TOp (Alloc (f, l)) :: tevs c
  | ":k" -> TOp Check :: tevs c
  | ":c" -> TOp Clear :: tevs c
  | t -> raise (Bad ("tev " ^ t))
let rec cops c = if at_end c then [] else
  let o = (match next c with
    | ":o" -> CSetOOM
    | ":r" -> CSetNot
    | ":d" -> CCountdown (z_tok (next c))
    | ":m" -> CAlloc (cfam_of (int_tok (next c)))
    | t -> raise (Bad ("cop " ^ t))) in o :: cops c
let backing_of = function "0" -> ADefault | "1" -> ACustom | "2" -> ANull | "3" -> AFailable | _ -> raise (Bad "alloc id")
let rec rops c = if at_end c then [] else
  let o = (match next c with
    | ":o" -> RSetOOM
    | ":r" -> RSetNot
    | ":d" -> RCountdown (z_tok (next c))
    | ":m" -> RAlloc (cfam_of (int_tok (next c)))
    | ":s" -> let f = cfam_of (int_tok (next c)) in RDup (f, nat_tok (next c))
    | ":f" -> RFree (nat_tok (next c))
    | ":y" -> let i = nat_tok (next c) in RRealloc (i, n_tok (next c))
    | ":g" -> RFailG (z_tok (next c))
    | ":c" -> RClearF
    | t -> raise (Bad ("rop " ^ t))) in o :: rops c
let scenario ts = let c = { rest = ts } in
  match next c with
  | ":F" -> SFail (ops c)
  | ":C" -> let cu = bool_tok (next c) in SCount (cu, cops c)
  | ":R" -> let b = backing_of (next c) in SRel (b, rops c)
  | ":T" -> let pre = z_tok (next c) in let su = tevs c in let bo = tevs c in let td = tevs c in
            if at_end c then STest (pre, su, bo, td) else raise (Bad "more than three test functions")
  | t -> raise (Bad ("scenario kind " ^ t))
let pres = function ROk -> "0" | RNull -> "1" | RBadAlloc -> "2" | RCrash -> "3"
let prep = function
  | None -> ":n"
  | Some (RepG n) -> ":G " ^ pz n
  | Some (RepL (f, l)) -> ":L " ^ pbytes f ^ " " ^ pn l
  | Some RepAnon -> ":X"
let pitem = function
  | OAlloc r -> pres r
  | OCheck r -> prep r
  | OCheckT (b, a, r) -> ":K " ^ pz b ^ " " ^ pz a ^ " " ^ prep r
  | OPhase k -> ":p " ^ pnat k
  | OReset a -> ":A " ^ (match a with ADefault -> "0" | ACustom -> "1" | ANull -> "2" | AFailable -> "3")
  | ODup (r, i) -> ":P " ^ pres r ^ " " ^ pbool i
  | OFree (f, g) -> ":Q " ^ pbool f ^ " " ^ pbool g
  | ORealloc (r, f, i) -> ":Y " ^ pres r ^ " " ^ pbool f ^ " " ^ pbool i
  | OEnd (t, cl) -> ":E " ^ pz t ^ " " ^ pbool cl
let pobs o = let s = String.concat " " (List.map pitem o) in if s = "" then ":-" else s
let res_of = function "0" -> ROk | "1" -> RNull | "2" -> RBadAlloc | "3" -> RCrash | t -> raise (Bad ("result " ^ t))
let rep_tok c = match next c with
  | ":n" -> None
  | ":G" -> Some (RepG (z_tok (next c)))
  | ":L" -> Some (RepL (loc_tok c))
  | ":X" -> Some RepAnon
  | t -> raise (Bad ("check item " ^ t))
let rec items c = if at_end c then [] else
  let i = (match next c with
    | ":K" -> let b = z_tok (next c) in let a = z_tok (next c) in OCheckT (b, a, rep_tok c)
    | ":p" -> OPhase (nat_tok (next c))
    | "0" -> OAlloc ROk | "1" -> OAlloc RNull | "2" -> OAlloc RBadAlloc | "3" -> OAlloc RCrash
    | ":P" -> let r = res_of (next c) in ODup (r, bool_tok (next c))
    | ":Q" -> let f = bool_tok (next c) in OFree (f, bool_tok (next c))
    | ":Y" -> let r = res_of (next c) in let f = bool_tok (next c) in ORealloc (r, f, bool_tok (next c))
    | ":E" -> let t = z_tok (next c) in OEnd (t, bool_tok (next c))
    | ":n" -> OCheck None
    | ":G" -> OCheck (Some (RepG (z_tok (next c))))
    | ":L" -> OCheck (Some (RepL (loc_tok c)))
    | ":X" -> OCheck (Some RepAnon)
    | ":A" -> OReset (backing_of (next c))
    | ":-" -> raise Exit
    | t -> raise (Bad ("obs item " ^ t))) in i :: items c
let parse_obs os = if os = [":-"] then [] else items { rest = os }
let run_line ts = let s = scenario ts in
  if not (valid s) then raise (Bad "scenario outside the precondition (an allocation denoted twice / undocumented arming)") else pobs (run s)
(* outside the precondition nothing is demanded (the generator only emits valid scenarios; run_line flags the others) *)
let spec_line ts os = let s = scenario ts in (not (valid s)) || spec s (parse_obs os)
