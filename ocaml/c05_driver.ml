(* C05 driver: see harness/C05.cpp for the scenario and observation grammar *)
let opt_id s = if s = "~" then None else Some (n_tok s)
let rec ops c = if at_end c then [] else
  let o = match next c with
    | ":m" -> OMalloc (n_tok (next c))
    | ":dm" -> ODetAlloc (n_tok (next c))
    | ":c" -> let a = n_tok (next c) in let b = n_tok (next c) in OCalloc (a, b)
    | ":r" -> let i = opt_id (next c) in ORealloc (i, n_tok (next c))
    | ":sd" -> OStrdup (bytes_tok (next c))
    | ":sn" -> let s = bytes_tok (next c) in OStrndup (s, n_tok (next c))
    | ":n" | ":nd" -> ONew (false, true, n_tok (next c))
    | ":na" | ":nad" -> ONew (true, true, n_tok (next c))
    | ":nt" -> ONew (false, false, n_tok (next c))
    | ":nat" -> ONew (true, false, n_tok (next c))
    | ":f" -> OFree (n_tok (next c))
    | ":w" -> let i = n_tok (next c) in let off = n_tok (next c) in OWrite (i, off, bytes_tok (next c))
    | t -> raise (Bad ("op " ^ t)) in
  o :: ops c
let scenario ts = let c = { rest = ts } in
  let g = bool_tok (next c) in let ns = n_tok (next c) in
  let f = counted c (fun c -> n_tok (next c)) in
  let w = if peek c = Some ":wrap" then (ignore (next c); true) else false in   (* memory accounting on *)
  { sc_cfg = { guard_on = g; node_size = ns }; sc_wrap = w; sc_fail = f; sc_ops = ops c }
let pcall ((k, sz), ok) = String.concat " " [pn k; pn sz; pbool ok]
let poobs o = String.concat " " (["|"; pn o.o_kind; Printf.sprintf "%x" (List.length o.o_calls)] @ List.map pcall o.o_calls @
  [pn o.o_amod; pn o.o_ovl; pn o.o_off; pn o.o_req; pn o.o_nk; pn o.o_nv; pbytes o.o_dig; pn o.o_total; pn o.o_rep])
let pobs o = String.concat " " ([pbool o.ob_guard; pn o.ob_ns; pbool o.ob_wrap; pbool o.ob_faults] @ List.map poobs o.ob_ops @
  ["|"; ":end"; Printf.sprintf "%x" (List.length o.ob_end_live)] @ List.concat_map (fun (i, d) -> [pn i; pbytes d]) o.ob_end_live @
  [pn o.ob_end_total; pn o.ob_end_rep; pn o.ob_end_leak])
let run_line ts = let s = scenario ts in if not (valid s) then raise (Bad "invalid scenario") else pobs (run s)
let parse_obs os = let c = { rest = os } in
  let g = bool_tok (next c) in let ns = n_tok (next c) in let w = bool_tok (next c) in let fl = bool_tok (next c) in
  let rec go acc =
    if next c <> "|" then raise (Bad "obs: expected |") else
    if peek c = Some ":end" then (ignore (next c);
      let lv = counted c (fun c -> let i = n_tok (next c) in let d = bytes_tok (next c) in (i, d)) in
      let t = n_tok (next c) in let r = n_tok (next c) in let lk = n_tok (next c) in
      { ob_guard = g; ob_ns = ns; ob_wrap = w; ob_faults = fl; ob_ops = List.rev acc; ob_end_live = lv; ob_end_total = t; ob_end_rep = r; ob_end_leak = lk })
    else begin
      let kind = n_tok (next c) in
      let calls = counted c (fun c -> let k = n_tok (next c) in let sz = n_tok (next c) in let ok = bool_tok (next c) in ((k, sz), ok)) in
      let amod = n_tok (next c) in let ovl = n_tok (next c) in let off = n_tok (next c) in let req = n_tok (next c) in let nk = n_tok (next c) in let nv = n_tok (next c) in
      let dig = bytes_tok (next c) in let total = n_tok (next c) in let rep = n_tok (next c) in
      go ({ o_kind = kind; o_calls = calls; o_amod = amod; o_ovl = ovl; o_off = off; o_req = req; o_nk = nk; o_nv = nv; o_dig = dig; o_total = total; o_rep = rep } :: acc)
    end in
  let o = go [] in if at_end c then o else raise (Bad "obs: trailing tokens")
let spec_line ts os = let s = scenario ts in valid s && spec s (parse_obs os)
