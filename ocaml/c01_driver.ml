(* C01 driver: scenario and observation grammar in harness/C01.cpp; base statement ":k :<kind> <agree> <file> <line>" = SCheckK *)
let ckind = function
  | ":true" -> KTrue | ":cstreq" -> KCstrEqual | ":cstrneq" -> KCstrNEqual | ":nocaseeq" -> KCstrNoCaseEqual | ":contains" -> KCstrContains
  | ":nocasecontains" -> KCstrNoCaseContains | ":longs" -> KLongs | ":ulongs" -> KULongs | ":llongs" -> KLongLongs | ":ullongs" -> KULongLongs
  | ":sbytes" -> KSignedBytes | ":ptrs" -> KPointers | ":fptrs" -> KFunctionPointers | ":doubles" -> KDoubles | ":equals" -> KEquals
  | ":binary" -> KBinary | ":binary0" -> KBinaryZero | ":bits" -> KBits | ":compare" -> KCompare | ":fail" -> KFail
  | ":c_bool" -> CBool | ":c_int" -> CInt | ":c_uint" -> CUInt | ":c_long" -> CLong | ":c_ulong" -> CULong | ":c_llong" -> CLongLong
  | ":c_ullong" -> CULongLong | ":c_real" -> CReal | ":c_char" -> CChar | ":c_ubyte" -> CUByte | ":c_sbyte" -> CSByte | ":c_string" -> CString
  | ":c_pointer" -> CPointer | ":c_memcmp" -> CMemcmp | ":c_memcmp0" -> CMemcmpZero | ":c_bits" -> CBits | ":c_failtext" -> CFailText
  | ":c_fail" -> CFail | ":c_check" -> CCheck | ":m_compare" -> MCompare
  | t -> raise (Bad ("check kind " ^ t))
(* statements inside a try block: ":t :<hk> <n> inner* <m> inner*" = STry, ":w :<ek> <file> <line> <n> inner*" = SThrows (CHECK_THROWS) *)
let inner c = match next c with
  | ":n" -> BNop | ":c" -> BCheck
  | ":k" -> let k = ckind (next c) in let a = bool_tok (next c) in let f = n_tok (next c) in let l = n_tok (next c) in BCheckK (k, a, f, l)
  | ":x" -> let f = n_tok (next c) in let l = n_tok (next c) in BFailX (f, l)
  | ":j" -> let f = n_tok (next c) in let l = n_tok (next c) in BFailC (f, l)
  | ":s" -> BThrowStd | ":o" -> BThrowOther
  | t -> raise (Bad ("statement inside a try block " ^ t))
let ekind = function ":std" -> EStd | ":int" -> EInt | ":unrel" -> EUnrel | t -> raise (Bad ("exception type " ^ t))
let hkind = function ":all" -> HAll | t -> HType (ekind t)
let base c = match next c with
  | ":n" -> SNop | ":c" -> SCheck
  | ":t" -> let h = hkind (next c) in let blk = counted c inner in let hd = counted c inner in STry (blk, h, hd)
  | ":w" -> let e = ekind (next c) in let f = n_tok (next c) in let l = n_tok (next c) in let blk = counted c inner in SThrows (e, blk, f, l)
  | ":k" -> let k = ckind (next c) in let a = bool_tok (next c) in let f = n_tok (next c) in let l = n_tok (next c) in SCheckK (k, a, f, l)
  | ":x" -> let f = n_tok (next c) in let l = n_tok (next c) in SFailX (f, l)
  | ":j" -> let f = n_tok (next c) in let l = n_tok (next c) in SFailC (f, l)
  | ":s" -> SThrowStd | ":o" -> SThrowOther
  | t -> raise (Bad ("stmt " ^ t))
let cond c =
  let k = next c in let n = n_tok (next c) in
  match k with ":eq" -> REq n | ":ne" -> RNe n | ":lt" -> RLt n | ":ge" -> RGe n | t -> raise (Bad ("cond " ^ t))
let stmt c = match peek c with
  | Some ":r" -> ignore (next c); let cd = cond c in let a = base c in let b = base c in RIf (cd, a, b)
  | _ -> RS (base c)
let pline c = match peek c with
  | Some ":r" -> ignore (next c); let cd = cond c in let l = n_tok (next c) in RLIf (cd, l)
  | _ -> RL (n_tok (next c))
let test c =
  let ign = bool_tok (next c) in let sel = bool_tok (next c) in let line = n_tok (next c) in
  let su = counted c stmt in let bo = counted c stmt in let td = counted c stmt in
  let pre = counted c pline in let post = counted c pline in
  { rt_ignored = ign; rt_sel = sel; rt_line = line; rt_setup = su; rt_body = bo; rt_teardown = td; rt_pre = pre; rt_post = post }
(* optional suffix ":io <sink> <sep> <verbose> <color> <cap>" = console mode (coq/C01_Console.v) *)
let scenario ts =
  let c = { rest = ts } in
  let cli = bool_tok (next c) in let rethrow = bool_tok (next c) in let filter = bool_tok (next c) in
  let runign = bool_tok (next c) in let repeat = n_tok (next c) in
  let tests = counted c test in
  (* ":mac": the tests are made by the public macros (TEST_GROUP / TEST / IGNORE_TEST): the same program for the model *)
  (match peek c with Some ":mac" -> ignore (next c) | _ -> ());
  let io = match peek c with
    | Some ":io" -> ignore (next c);
        let sink = n_tok (next c) in let sep = bool_tok (next c) in let v = bool_tok (next c) in let col = bool_tok (next c) in let cap = n_tok (next c) in
        Some { i_sink = sink; i_sep = sep; i_verbose = v; i_color = col; i_cap = cap }
    | _ -> None in
  if not (at_end c) then raise (Bad "tokens behind the scenario");
  { x_scn = { s_cfg = { c_cli = cli; c_rethrow = rethrow; c_filter = filter; c_runign = runign; c_repeat = repeat }; s_tests = tests }; x_io = io }
let has_throws xs = List.exists rhas_throw xs.x_scn.s_tests
let prep r =
  let ev = List.concat_map (fun e -> [pn e.e_test; pn e.e_phase; pn e.e_idx; pz e.e_depth]) r.r_events in
  let fl = List.concat_map (fun f -> [pn f.f_test; pn f.f_file; pn f.f_line; pn f.f_kind]) r.r_fails in
  let af = List.concat_map (fun (d, b) -> [pz d; pbool b]) r.r_after in
  let sm = match r.r_summary with None -> ["~"]
    | Some m -> [":s"; pbool m.m_ok; (match m.m_nfail with None -> "~" | Some n -> pn n); pn m.m_tests; pn m.m_run; pn m.m_checks; pn m.m_ign; pn m.m_filt] in
  let ct = match r.r_counters with None -> ["~"]
    | Some k -> [":k"; pn k.k_tests; pn k.k_run; pn k.k_checks; pn k.k_fail; pn k.k_filt; pn k.k_ign] in
  let sb = List.concat_map (fun u -> [pn u.u_test; pn u.u_phase; pn u.u_idx; pn u.u_sub]) r.r_subs in
  [Printf.sprintf "%x" (List.length r.r_events)] @ ev @ [Printf.sprintf "%x" (List.length r.r_fails)] @ fl
  @ [Printf.sprintf "%x" (List.length r.r_after)] @ af @ sm @ ct @ [Printf.sprintf "%x" (List.length r.r_subs)] @ sb
let psum m = [":s"; pbool m.m_ok; (match m.m_nfail with None -> "~" | Some n -> pn n); pn m.m_tests; pn m.m_run; pn m.m_checks; pn m.m_ign; pn m.m_filt]
let pobs = function
  | XPlain o ->
    String.concat " " ([pbool o.o_escaped; (match o.o_ret with None -> "~" | Some z -> pz z); Printf.sprintf "%x" (List.length o.o_reps)]
                       @ List.concat_map prep o.o_reps)
  | XConsole c ->
    String.concat " " ([":io"; pbool c.co_escaped; (match c.co_ret with None -> "~" | Some z -> pz z); Printf.sprintf "%x" (List.length c.co_items)]
                       @ List.concat_map (function FRec f -> [":f"; pn f.f_test; pn f.f_file; pn f.f_line; pn f.f_kind] | FSum m -> psum m) c.co_items)
(* the model of the build with exceptions is the one compared; for programs without throw statements the model of the
   build without exceptions must give the same observation (also a theorem: C01_build_independent) *)
let run_line ts =
  let scn = scenario ts in
  let a = pobs (run_x true scn) in
  if has_throws scn then a
  else let b = pobs (run_x false scn) in if a = b then a else raise (Bad "the two build variants of the model differ")
let rep_of c =
  let ev = counted c (fun c -> let t = n_tok (next c) in let p = n_tok (next c) in let i = n_tok (next c) in let d = z_tok (next c) in
                               { e_test = t; e_phase = p; e_idx = i; e_depth = d }) in
  let fl = counted c (fun c -> let t = n_tok (next c) in let f = n_tok (next c) in let l = n_tok (next c) in let k = n_tok (next c) in
                               { f_test = t; f_file = f; f_line = l; f_kind = k }) in
  let af = counted c (fun c -> let d = z_tok (next c) in let b = bool_tok (next c) in (d, b)) in
  let sm = match next c with
    | "~" -> None
    | ":s" -> let ok = bool_tok (next c) in let nf = (match next c with "~" -> None | t -> Some (n_tok t)) in
              let a = n_tok (next c) in let b = n_tok (next c) in let cc = n_tok (next c) in let d = n_tok (next c) in let e = n_tok (next c) in
              Some { m_ok = ok; m_nfail = nf; m_tests = a; m_run = b; m_checks = cc; m_ign = d; m_filt = e }
    | t -> raise (Bad ("summary " ^ t)) in
  let ct = match next c with
    | "~" -> None
    | ":k" -> let a = n_tok (next c) in let b = n_tok (next c) in let cc = n_tok (next c) in let d = n_tok (next c) in
              let e = n_tok (next c) in let f = n_tok (next c) in
              Some { k_tests = a; k_run = b; k_checks = cc; k_fail = d; k_filt = e; k_ign = f }
    | t -> raise (Bad ("counters " ^ t)) in
  let sb = counted c (fun c -> let t = n_tok (next c) in let p = n_tok (next c) in let i = n_tok (next c) in let j = n_tok (next c) in
                               { u_test = t; u_phase = p; u_idx = i; u_sub = j }) in
  { r_events = ev; r_fails = fl; r_after = af; r_summary = sm; r_counters = ct; r_subs = sb }
let sum_of c =
  let ok = bool_tok (next c) in let nf = (match next c with "~" -> None | t -> Some (n_tok t)) in
  let a = n_tok (next c) in let b = n_tok (next c) in let cc = n_tok (next c) in let d = n_tok (next c) in let e = n_tok (next c) in
  { m_ok = ok; m_nfail = nf; m_tests = a; m_run = b; m_checks = cc; m_ign = d; m_filt = e }
let fitem_of c = match next c with
  | ":f" -> let t = n_tok (next c) in let f = n_tok (next c) in let l = n_tok (next c) in let k = n_tok (next c) in
            FRec { f_test = t; f_file = f; f_line = l; f_kind = k }
  | ":s" -> FSum (sum_of c)
  | t -> raise (Bad ("file item " ^ t))
let spec_line ts os =
  let scn = scenario ts in
  if os = ["skip"] then true else
  let c = { rest = os } in
  match peek c with
  | Some ":io" ->
    ignore (next c);
    let esc = bool_tok (next c) in
    let ret = (match next c with "~" -> None | t -> Some (z_tok t)) in
    let items = counted c fitem_of in
    at_end c && spec_x scn (XConsole { co_escaped = esc; co_ret = ret; co_items = items })
  | _ ->
    let esc = bool_tok (next c) in
    let ret = (match next c with "~" -> None | t -> Some (z_tok t)) in
    let reps = counted c rep_of in
    at_end c && spec_x scn (XPlain { o_escaped = esc; o_ret = ret; o_reps = reps })
