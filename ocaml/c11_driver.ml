(* C11 driver: token grammar in checks/C11.py / harness/C11.cpp
   scenario ::= [:ri] <all_sep> <ntests> ([:ign] test)*                                   one pass
              | :m <nsteps> step*         step ::= <sep on> <ri on> <nadd> mcase*     mcase ::= [:from <k>] [:own] [:ign] test
                (several passes over one registry)
   observation: per pass  item* :end <failures> <isFailure> <run> <ignored> <late>;  then :died <pass> <how> <n> if the runner died *)
let hexi i = Printf.sprintf "%x" i
let wout c =
  match next c with
  | ":ei" -> SEintr
  | ":er" -> SErr (n_tok (next c))
  | ":x" -> SEv (EvExit (n_tok (next c)))
  | ":k" -> let s = n_tok (next c) in SEv (EvKill (s, bool_tok (next c)))
  | ":s" -> SEv (EvStop (n_tok (next c)))
  | ":c" -> SEv EvCont
  | t -> raise (Bad ("outcome " ^ t))
let act c =
  match next c with
  | ":r" -> ARaise (n_tok (next c))
  | ":e" -> AExit (n_tok (next c))
  | ":f" -> AFail
  | t -> raise (Bad ("action " ^ t))
let inj c =
  match next c with
  | ":ei" -> IEintr | ":er" -> IErr | ":re" -> IReal
  | t -> raise (Bad ("injection " ^ t))
let sibling c =
  match next c with
  | ":sx" -> let late = bool_tok (next c) in SibExit (late, n_tok (next c))
  | ":sk" -> let late = bool_tok (next c) in SibKill (late, n_tok (next c))
  | t -> raise (Bad ("sibling " ^ t))
let chld_tok t =
  match int_tok t with
  | 0 -> CDefault | 1 -> CIgnore | 2 -> CNoCldWait | 3 -> CNoCldWaitH | 4 -> CReapFirst | 5 -> CHandler
  | _ -> raise (Bad ("SIGCHLD configuration " ^ t))
let test c =
  match next c with
  | ":plain" -> TPlain (bool_tok (next c))
  | ":scr" -> let ok = bool_tok (next c) in TScripted (ok, counted c wout)
  | ":real" -> let a = counted c act in let b = counted c act in let d = counted c act in let e = counted c act in
               let f = counted c act in
               let i = counted c inj in
               TReal ({ p_pre = a; p_setup = b; p_body = d; p_teardown = e; p_post = f }, i)
  (* :env <SIGCHLD configuration 0..5> <n> sibling*n <genuine EINTRs> then the fields of :real *)
  | ":env" -> let ch = chld_tok (next c) in let sibs = counted c sibling in let ne = nat_tok (next c) in
               let a = counted c act in let b = counted c act in let d = counted c act in let e = counted c act in
               let f = counted c act in
               let i = counted c inj in
               TEnv ({ e_chld = ch; e_sibs = sibs; e_eintr = ne },
                     { p_pre = a; p_setup = b; p_body = d; p_teardown = e; p_post = f }, i)
  | t -> raise (Bad ("test " ^ t))
(* a registered test: optional marker :ign in front of the test *)
let tcase c =
  match peek c with
  | Some ":ign" -> ignore (next c); { c_ign = true; c_test = test c }
  | _ -> { c_ign = false; c_test = test c }
(* one-pass scenario: optional leading flag :ri (run-ignored switch), then <all_sep> <ntests> case* *)
let scenario1 c =
  let ri = (match peek c with Some ":ri" -> ignore (next c); true | _ -> false) in
  let all = bool_tok (next c) in
  let l = counted c tcase in
  { s_all_sep = all; s_run_ign = ri; s_tests = l }
(* a test of a several-pass program: [:from <k>] [:own] [:ign] test *)
let mcase c =
  let from = (match peek c with Some ":from" -> ignore (next c); nat_tok (next c) | _ -> nat_of_int 0) in
  let own = (match peek c with Some ":own" -> ignore (next c); true | _ -> false) in
  let tc = tcase c in
  { m_from = from; m_own = own; m_case = tc }
(* step ::= <separate-process switched on 0|1> <run-ignored switched on 0|1> <n> mcase*n *)
let step c =
  let sep = bool_tok (next c) in
  let ri = bool_tok (next c) in
  let l = counted c mcase in
  { st_sep = sep; st_ri = ri; st_add = l }
(* scenario ::= one-pass scenario (embedded by the extracted `embed`) | :m <nsteps> step* *)
let scenario ts =
  let c = { rest = ts } in
  let s = (match peek c with
           | Some ":m" -> ignore (next c); counted c step
           | _ -> embed (scenario1 c)) in
  if not (at_end c) then raise (Bad "trailing tokens");
  s
let pfail = function
  | FExit -> ":x" | FKilled s -> ":k " ^ pn s | FStopped -> ":s" | FFork -> ":fk" | FEintr -> ":wi" | FWait -> ":w"
  | FCheck -> ":ck" | FOther -> ":o"
let pitem it =
  String.concat " " ([":t"; pbool it.i_started; hexi (List.length it.i_fails)] @ List.map pfail it.i_fails
                     @ [pnat it.i_calls; pnat it.i_conts; pbool it.i_lost])
let pobs o =
  String.concat " " (List.map pitem o.o_items @ [":end"; pn o.o_total; pbool o.o_failed; pn o.o_run; pn o.o_ign; pbool o.o_late])
let run_line ts =
  let s = scenario ts in
  if not (valid_m s) then raise (Bad "scenario is not valid (no test in the first pass, status/signal/exit code out of range, or a scripted/real test run outside separate-process mode)")
  else let o = run_m s in
    String.concat " " (List.map pobs o.mo_passes @ (if o.mo_died then [":died"] else []))
let fail_tok c =
  match next c with
  | ":x" -> FExit | ":k" -> FKilled (n_tok (next c)) | ":s" -> FStopped | ":fk" -> FFork | ":wi" -> FEintr | ":w" -> FWait
  | ":ck" -> FCheck | ":o" -> FOther
  | t -> raise (Bad ("failure " ^ t))
(* observation ::= pass* [:died <pass> <how> <n>]      pass ::= item* :end <failures> <isFailure> <run> <ignored> <late> *)
let spec_line ts os =
  let s = scenario ts in
  if not (valid_m s) then true else
  let c = { rest = os } in
  let rec items acc =
    match peek c with
    | Some ":t" -> ignore (next c);
        let st = bool_tok (next c) in
        let fs = counted c fail_tok in
        let calls = nat_tok (next c) in let conts = nat_tok (next c) in let lost = bool_tok (next c) in
        items ({ i_started = st; i_fails = fs; i_calls = calls; i_conts = conts; i_lost = lost } :: acc)
    | _ -> List.rev acc in
  let rec passes acc =
    match peek c with
    | None -> (List.rev acc, false)
    | Some ":died" -> c.rest <- []; (List.rev acc, true)
    | _ ->
      let its = items [] in
      (match next c with ":end" -> () | t -> raise (Bad ("expected :end, got " ^ t)));
      let total = n_tok (next c) in let failed = bool_tok (next c) in let run = n_tok (next c) in let ign = n_tok (next c) in
      let late = bool_tok (next c) in
      passes ({ o_items = its; o_total = total; o_failed = failed; o_run = run; o_ign = ign; o_late = late } :: acc) in
  let (ps, died) = passes [] in
  spec_m s { mo_passes = ps; mo_died = died }
