(* C11 driver: token grammar in checks/C11.py / harness/C11.cpp
   scenario ::= [:ri] <all_sep> <ntests> ([:ign] test)*     observation ends with :end <failures> <isFailure> <run> <ignored> <late> *)
let hexi i = Printf.sprintf "%x" i
let wout c =
  match next c with
  | ":ei" -> SEintr
  | ":er" -> SErr (n_tok (next c))
  | ":x" -> SEv (EvExit (n_tok (next c)))
  | ":k" -> let s = n_tok (next c) in SEv (EvKill (s, bool_tok (next c)))
  | ":s" -> SEv (EvStop (n_tok (next c)))
  | ":c" -> SEv EvCont
  | t -> raise (Bad ("outcome " ^ t))
let act c =
  match next c with
  | ":r" -> ARaise (n_tok (next c))
  | ":e" -> AExit (n_tok (next c))
  | ":f" -> AFail
  | t -> raise (Bad ("action " ^ t))
let inj c =
  match next c with
  | ":ei" -> IEintr | ":er" -> IErr | ":re" -> IReal
  | t -> raise (Bad ("injection " ^ t))
let test c =
  match next c with
  | ":plain" -> TPlain (bool_tok (next c))
  | ":scr" -> let ok = bool_tok (next c) in TScripted (ok, counted c wout)
  | ":real" -> let a = counted c act in let b = counted c act in let d = counted c act in let e = counted c act in
               let f = counted c act in
               let i = counted c inj in
               TReal ({ p_pre = a; p_setup = b; p_body = d; p_teardown = e; p_post = f }, i)
  | t -> raise (Bad ("test " ^ t))
(* a registered test: optional marker :ign in front of the test *)
let tcase c =
  match peek c with
  | Some ":ign" -> ignore (next c); { c_ign = true; c_test = test c }
  | _ -> { c_ign = false; c_test = test c }
(* scenario: optional leading flag :ri (run-ignored switch), then <all_sep> <ntests> case* *)
let scenario ts =
  let c = { rest = ts } in
  let ri = (match peek c with Some ":ri" -> ignore (next c); true | _ -> false) in
  let all = bool_tok (next c) in
  let l = counted c tcase in
  if not (at_end c) then raise (Bad "trailing tokens");
  { s_all_sep = all; s_run_ign = ri; s_tests = l }
let pfail = function
  | FExit -> ":x" | FKilled s -> ":k " ^ pn s | FStopped -> ":s" | FFork -> ":fk" | FEintr -> ":wi" | FWait -> ":w"
  | FCheck -> ":ck" | FOther -> ":o"
let pitem it =
  String.concat " " ([":t"; pbool it.i_started; hexi (List.length it.i_fails)] @ List.map pfail it.i_fails
                     @ [pnat it.i_calls; pnat it.i_conts; pbool it.i_lost])
let run_line ts =
  let s = scenario ts in
  if not (valid s) then raise (Bad "scenario is not valid (no test, status/signal/exit code out of range)")
  else let o = run s in
    String.concat " " (List.map pitem o.o_items @ [":end"; pn o.o_total; pbool o.o_failed; pn o.o_run; pn o.o_ign; pbool o.o_late])
let fail_tok c =
  match next c with
  | ":x" -> FExit | ":k" -> FKilled (n_tok (next c)) | ":s" -> FStopped | ":fk" -> FFork | ":wi" -> FEintr | ":w" -> FWait
  | ":ck" -> FCheck | ":o" -> FOther
  | t -> raise (Bad ("failure " ^ t))
let spec_line ts os =
  let s = scenario ts in
  if not (valid s) then true else
  let c = { rest = os } in
  let rec items acc =
    match peek c with
    | Some ":t" -> ignore (next c);
        let st = bool_tok (next c) in
        let fs = counted c fail_tok in
        let calls = nat_tok (next c) in let conts = nat_tok (next c) in let lost = bool_tok (next c) in
        items ({ i_started = st; i_fails = fs; i_calls = calls; i_conts = conts; i_lost = lost } :: acc)
    | _ -> List.rev acc in
  let its = items [] in
  (match next c with ":end" -> () | t -> raise (Bad ("expected :end, got " ^ t)));
  let total = n_tok (next c) in let failed = bool_tok (next c) in let run = n_tok (next c) in let ign = n_tok (next c) in
  let late = bool_tok (next c) in
  if not (at_end c) then raise (Bad "trailing tokens in the observation");
  spec s { o_items = its; o_total = total; o_failed = failed; o_run = run; o_ign = ign; o_late = late }
