(* C02 driver.
   scenario:  ri rev shuffle seed repeat route real  nT (group name ignored)*nT  nG (pat strict invert)*nG  nN (pat strict invert)*nN  nR rand*nR
              { :r ri rev shuffle seed repeat route real list  nG (pat strict invert)*nG  nN (pat strict invert)*nN  nR rand*nR }      further runs on the same registry
   observation: { :run { :rep nOrd id* nS seed* nR rand* nW event* tests run ignored filtered } } :tot nT count*     ({ } = any number of)
   event: :S | :G id | :s id | :b id | :e | :g | :E        (tests started, group started, test started, body, test ended, group ended, tests ended) *)
let hexi i = Printf.sprintf "%x" i
let tfilter c = let p = bytes_tok (next c) in let st = bool_tok (next c) in let iv = bool_tok (next c) in
  { f_pat = p; f_strict = st; f_invert = iv }
let scenario ts =
  let c = { rest = ts } in
  let ri = bool_tok (next c) in let rv = bool_tok (next c) in let sh = bool_tok (next c) in
  let seed = n_tok (next c) in let rep = nat_tok (next c) in let route = n_tok (next c) in let real = bool_tok (next c) in
  let k = ref 0 in
  let tests = counted c (fun c -> let g = bytes_tok (next c) in let nm = bytes_tok (next c) in let ig = bool_tok (next c) in
                                 let id = !k in incr k; { t_id = nat_of_int id; t_group = g; t_name = nm; t_ignored = ig }) in
  let gf = counted c tfilter in
  let nf = counted c tfilter in
  let rands = counted c (fun c -> n_tok (next c)) in
  let rec more acc =
    if at_end c then List.rev acc
    else match next c with
      | ":r" ->
        let ri = bool_tok (next c) in let rv = bool_tok (next c) in let sh = bool_tok (next c) in
        let seed = n_tok (next c) in let rep = nat_tok (next c) in let route = n_tok (next c) in let real = bool_tok (next c) in
        let lst = n_tok (next c) in
        let gf = counted c tfilter in
        let nf = counted c tfilter in
        let rands = counted c (fun c -> n_tok (next c)) in
        more ({ u_gf = gf; u_nf = nf; u_ri = ri; u_rev = rv; u_shuffle = sh; u_seed = seed; u_rands = rands; u_repeat = rep;
                u_route = route; u_real = real; u_list = lst } :: acc)
      | _ -> raise (Bad "trailing tokens") in
  let extra = more [] in
  { s_tests = tests; s_gf = gf; s_nf = nf; s_ri = ri; s_rev = rv; s_shuffle = sh; s_seed = seed; s_rands = rands;
    s_repeat = rep; s_route = route; s_real = real; s_more = extra }
let pevent = function
  | ETestsStarted -> ":S" | EGroupStarted i -> ":G " ^ pnat i | ETestStarted i -> ":s " ^ pnat i | EBody i -> ":b " ^ pnat i
  | ETestEnded -> ":e" | EGroupEnded -> ":g" | ETestsEnded -> ":E"
let plist f l = String.concat " " (hexi (List.length l) :: List.map f l)
let prep r =
  String.concat " " [":rep"; plist pnat r.r_order; plist pn r.r_srand; plist pn r.r_rands; plist pevent r.r_word;
                     pn r.r_cnt.c_tests; pn r.r_cnt.c_run; pn r.r_cnt.c_ign; pn r.r_cnt.c_filt]
let prun reps = String.concat " " (":run" :: List.map prep reps)
let pobs o = String.concat " " (List.map prun o.o_runs @ [":tot"; plist pn o.o_totals])
let run_line ts =
  let s = scenario ts in
  if not (valid s) then raise (Bad "scenario is not valid (NUL byte in a string, rand value above RAND_MAX, repeat/seed the command line cannot express, or listing kind above 3)")
  else pobs (run s)
let event c =
  match next c with
  | ":S" -> ETestsStarted | ":G" -> EGroupStarted (nat_tok (next c)) | ":s" -> ETestStarted (nat_tok (next c))
  | ":b" -> EBody (nat_tok (next c)) | ":e" -> ETestEnded | ":g" -> EGroupEnded | ":E" -> ETestsEnded
  | t -> raise (Bad ("event " ^ t))
let rep c =
  let ord = counted c (fun c -> nat_tok (next c)) in
  let sr = counted c (fun c -> n_tok (next c)) in
  let rs = counted c (fun c -> n_tok (next c)) in
  let w = counted c event in
  let a = n_tok (next c) in let b = n_tok (next c) in let d = n_tok (next c) in let e = n_tok (next c) in
  { r_order = ord; r_srand = sr; r_rands = rs; r_word = w; r_cnt = { c_tests = a; c_run = b; c_ign = d; c_filt = e } }
let obs os =
  let c = { rest = os } in
  (* runs: finished runs (reversed); cur: repetitions of the run being read (reversed), None before the first :run *)
  let close runs cur = match cur with None -> runs | Some reps -> List.rev reps :: runs in
  let rec go runs cur = match next c with
    | ":run" -> go (close runs cur) (Some [])
    | ":rep" -> (match cur with Some reps -> go runs (Some (rep c :: reps)) | None -> raise (Bad ":rep before :run"))
    | ":tot" -> let t = counted c (fun c -> n_tok (next c)) in
                if not (at_end c) then raise (Bad "trailing tokens"); { o_runs = List.rev (close runs cur); o_totals = t }
    | t -> raise (Bad ("item " ^ t)) in
  go [] None
let spec_line ts os =
  let s = scenario ts in
  if not (valid s) then true (* not a scenario the property speaks about: not judged *)
  else spec s (obs os)
